// C08 natively: DecodingTree::save must not change the object -- a second save of the same tree writes the same bytes
// (ASan+UBSan build: a save that frees what it owns shows as heap-use-after-free on the second save)
#include "args.h"
#include <sstream>
#include <vector>
#include "utils/Coder/DecodingTree.h"
int main(int argc, char **argv) {
  BitString *bs = new BitString(6);          // balanced parentheses 0 0 1 0 1 1: a root with two leaves
  bs->setBit(2); bs->setBit(4); bs->setBit(5);
  std::vector<uint> syms = {65, 66};
  DecodingTree *t = new DecodingTree(3, bs, &syms);
  std::stringstream a, b;
  t->save(a);
  t->save(b);
  if (a.str() != b.str()) VIOLATED("second save of the same DecodingTree wrote different bytes");
  delete t;
  return 0;
}

// C18/C06 natively: after loading an HTFC dictionary, the decoding table's info-byte entries must be
// (length = i>>4, bits = (i&15)+1) for every code i in 0..255 (ASan fills fresh allocations with 0xbe, so an entry
// that load() forgot to initialise is visible)
#include "args.h"
#include <sstream>
#include <string>
#include <vector>
#include "StringDictionary.h"
#include "iterators/IteratorDictStringPlain.h"
int main(int argc, char **argv) {
  std::vector<std::string> S;
  for (int i = 0; i < 50; i++) { char b[32]; snprintf(b, sizeof b, "entry%03d", i * 3); S.push_back(b); }
  size_t total = 0; for (auto &s : S) total += s.size() + 1;
  unsigned char *buf = new unsigned char[total]; size_t p = 0;
  for (auto &s : S) { memcpy(buf + p, s.c_str(), s.size() + 1); p += s.size() + 1; }
  StringDictionary *d0 = new StringDictionaryHTFC(new IteratorDictStringPlain(buf, total), 4);
  std::stringstream ss; d0->save(ss);
  StringDictionaryHTFC *d = (StringDictionaryHTFC *)StringDictionary::load(ss, 0);
  if (!d) { printf("load failed\n"); return 2; }
  for (unsigned i = 0; i < 256; i++) {
    unsigned l = d->table->ventry[i].length, b = d->table->ventry[i].bits;
    if (l != ((i & 240) >> 4) || b != ((i & 15) + 1)) VIOLATED("loaded decoding table: ventry[%u] = (length %u, bits %u), expected (%u, %u)", i, l, b, (i & 240) >> 4, (i & 15) + 1);
  }
  return 0;
}

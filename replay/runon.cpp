// C02 natively: HASHRPF keeps the strings back to back in one packed sequence, each ended by the symbol maxchar (largest byte + 1);
// a query that itself contains the byte maxchar must still be reported absent
#include "args.h"
#include <algorithm>
#include <string>
#include <vector>
#include "StringDictionary.h"
#include "iterators/IteratorDictStringPlain.h"
int main(int argc, char **argv) {
  int overhead = argc > 1 ? atoi(argv[1]) : 20; int bad = 0, tried = 0; unsigned seed = 777;
  for (int round = 0; round < 40 && !bad; round++) {
    std::vector<std::string> S;
    for (int i = 0; i < 6; i++) { std::string t; int len = 1 + (seed >> 20) % 2; for (int k = 0; k < len; k++) { seed = seed * 1103515245 + 12345; t.push_back('a' + (seed >> 16) % 4); } S.push_back(t); }
    std::sort(S.begin(), S.end()); S.erase(std::unique(S.begin(), S.end()), S.end());
    unsigned char mc = 0; for (auto &s : S) for (unsigned char ch : s) if (ch > mc) mc = ch; mc++;
    size_t total = 0; for (auto &s : S) total += s.size() + 1;
    unsigned char *buf = new unsigned char[total]; size_t p = 0;
    for (auto &s : S) { memcpy(buf + p, s.c_str(), s.size() + 1); p += s.size() + 1; }
    StringDictionary *d = new StringDictionaryHASHRPF(new IteratorDictStringPlain(buf, total), total, overhead);
    for (auto &a : S) for (auto &b : S) {
      std::string q = a; q.push_back((char)mc); q += b;
      unsigned char qb[16] = {0}; memcpy(qb, q.c_str(), q.size());
      size_t id = d->locate(qb, q.size()); tried++;
      if (id != 0) { if (!bad) { printf("PROPERTY VIOLATED: locate(\"%s\") = %zu for a string that is not a member; members:", q.c_str(), id); for (auto &s : S) printf(" \"%s\"", s.c_str()); printf(" (maxchar = '%c')\n", mc); } bad++; }
    }
    delete d;
  }
  printf("%d of %d absent lookups returned an ID\n", bad, tried);
  return bad ? 1 : 0;
}

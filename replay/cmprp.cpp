// C14 natively: absent lookups on a (loaded) HASHRPF dictionary must leave the caller's pattern buffer intact
#include "args.h"
#include <algorithm>
#include <sstream>
#include <string>
#include <vector>
#include "StringDictionary.h"
#include "iterators/IteratorDictStringPlain.h"
int main(int argc, char **argv) {
  std::vector<std::string> S; unsigned seed = 12345;
  for (int i = 0; i < 60; i++) { std::string t; for (int k = 0; k < 3; k++) { seed = seed * 1103515245 + 12345; t.push_back('a' + (seed >> 16) % 26); } S.push_back(t); }
  std::sort(S.begin(), S.end()); S.erase(std::unique(S.begin(), S.end()), S.end());
  size_t total = 0; for (auto &s : S) total += s.size() + 1;
  unsigned char *buf = new unsigned char[total]; size_t p = 0;
  for (auto &s : S) { memcpy(buf + p, s.c_str(), s.size() + 1); p += s.size() + 1; }
  StringDictionary *d0 = new StringDictionaryHASHRPF(new IteratorDictStringPlain(buf, total), total, 50);
  std::stringstream ss; d0->save(ss);
  StringDictionary *d = StringDictionary::load(ss, 1);
  if (!d) { printf("load failed\n"); return 2; }
  int bad = 0, tried = 0;
  for (int i = 0; i < 400; i++) {
    std::string qs; for (int k = 0; k < 3; k++) { seed = seed * 1103515245 + 12345; qs.push_back('a' + (seed >> 16) % 26); }
    if (std::binary_search(S.begin(), S.end(), qs)) continue;
    unsigned char q[8] = {0}; memcpy(q, qs.c_str(), 3); q[4] = 'Z';
    unsigned char keep[8]; memcpy(keep, q, 8);
    d->locate(q, 3); tried++;
    if (memcmp(keep, q, 8) != 0) { if (!bad) printf("PROPERTY VIOLATED: locate(\"%s\") left the pattern as %02x %02x %02x %02x (terminator overwritten)\n", keep, q[0], q[1], q[2], q[3]); bad++; }
  }
  if (bad) { printf("%d of %d absent lookups modified the caller's pattern\n", bad, tried); return 1; }
  return 0;
}

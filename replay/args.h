// tiny "name=value" argv reader shared by the replay drivers
#pragma once
#include <cstdio>
#include <cstdlib>
#include <map>
#include <string>
struct Args {
  std::map<std::string, std::string> m;
  Args(int argc, char **argv) {
    for (int i = 1; i < argc; i++) {
      std::string a(argv[i]);
      size_t p = a.find('=');
      if (p != std::string::npos) m[a.substr(0, p)] = a.substr(p + 1);
    }
  }
  bool has(const std::string &k) const { return m.count(k) != 0; }
  std::string str(const std::string &k, const std::string &d = "") const { auto it = m.find(k); return it == m.end() ? d : it->second; }
  unsigned long long u(const std::string &k, unsigned long long d = 0) const {
    auto it = m.find(k);
    if (it == m.end()) return d;
    const char *s = it->second.c_str();
    char *e;
    if (s[0] == '-') return (unsigned long long)strtoll(s, &e, 0);
    // CBMC prints bit patterns for some values; accept 0b..., decimal and hex
    if (s[0] == '0' && (s[1] == 'b' || s[1] == 'B')) return strtoull(s + 2, &e, 2);
    return strtoull(s, &e, 0);
  }
  unsigned long long need(const std::string &k) const {
    if (!has(k)) { printf("missing input %s\n", k.c_str()); exit(2); }
    return u(k);
  }
};
#define VIOLATED(...) do { printf("PROPERTY VIOLATED: "); printf(__VA_ARGS__); printf("\n"); exit(1); } while (0)

"""Native replay of CBMC counterexamples against the real C++ code of /repo.

run(driver, result, prop) -> (verdict, detail)
  verdict: 'reproduced'      the real code violates the property on the counterexample input
           'not-reproduced'  the real code satisfies the property on that input
           'none'            no usable replay (driver missing, build error, inputs incomplete)
Drivers are /verif/replay/<driver>.cpp; they are compiled with ASan+UBSan against
the translation units of /repo's working tree named in their first line:
   // SOURCES: utils/LogSequence.cpp ...
and get the counterexample as argv "name=value" pairs plus "ob=<obligation>".
Driver exit code: 0 holds, 1 violated (message on stdout), 2 inputs unusable.
A sanitizer report counts as violated.
"""
import hashlib
import os
import re
import subprocess
import sys

HERE = os.path.dirname(os.path.abspath(__file__))
ROOT = os.path.dirname(HERE)
sys.path.insert(0, os.path.join(ROOT, 'tools'))
import lower as L  # noqa: E402

REPO = L.REPO
ALL_SOURCES_CACHE = {}


def clean(v):
    if v is None:
        return None
    if isinstance(v, bool):
        return '1' if v else '0'
    v = str(v)
    m = re.match(r"^(-?\d+)(u|l|ul|ull|ll|lu)?$", v)
    if m:
        return m.group(1)
    m = re.match(r"^'(.)'$", v)
    if m:
        return str(ord(m.group(1)))
    return v


FLAGS = ['-std=c++17', '-O1', '-g', '-w', '-fsanitize=address,undefined', '-fno-sanitize-recover=undefined',
         '-fno-access-control', '-I', REPO, '-I', REPO + '/libcds/includes', '-DLIBCSD_VERIF_REPLAY']


def build_lib():
    """all of /repo's library sources, ASan+UBSan, once per working-tree content"""
    d = os.path.join(ROOT, '.work', 'replay', 'lib-' + L.repo_hash()[:16])
    lib = os.path.join(d, 'libcsd_asan.a')
    if os.path.exists(lib):
        return lib, None
    os.makedirs(d, exist_ok=True)
    srcs = all_sources()
    objs = []
    running = []

    def reap(block_all=False):
        while running and (block_all or len(running) >= 16):
            s_, p = running.pop(0)
            out = p.communicate()[0]
            if p.returncode != 0:
                return 'compile of %s failed: %s' % (s_, out[-1500:])
        return None
    for s in srcs:
        o = os.path.join(d, re.sub(r'[^A-Za-z0-9]', '_', s) + '.o')
        objs.append(o)
        running.append((s, subprocess.Popen(['g++'] + FLAGS + ['-c', os.path.join(REPO, s), '-o', o],
                                            stdout=subprocess.PIPE, stderr=subprocess.STDOUT, text=True)))
        err = reap()
        if err:
            return None, err
    err = reap(True)
    if err:
        return None, err
    r = subprocess.run(['ar', 'rcs', lib + '.tmp'] + objs, capture_output=True, text=True)
    if r.returncode != 0:
        return None, 'ar failed: ' + r.stderr[-500:]
    os.replace(lib + '.tmp', lib)
    for o in objs:
        os.remove(o)
    return lib, None


def build(driver, defs=None):
    src = os.path.join(HERE, driver + '.cpp')
    if not os.path.exists(src):
        return None, 'driver %s.cpp missing' % driver
    lib, err = build_lib()
    if not lib:
        return None, err
    head = open(src).read().split('\n')[:6]
    extra, extradefs = [], []
    dmap = {}
    for d in defs or []:
        if d.startswith('-D') and '=' in d:
            k, v = d[2:].split('=', 1)
            dmap[k] = v
    for ln in head:
        m = re.match(r'//\s*EXTRA:\s*(.*)$', ln)
        if m:
            extra = m.group(1).split()
        m = re.match(r'//\s*EXTRADEFS:\s*(.*)$', ln)
        if m:
            t = m.group(1)
            for k, v in dmap.items():
                t = t.replace('{%s}' % k, v)
            if '{' in t:
                return None, 'replay driver needs a definition that the obligation does not set: ' + t
            extradefs = t.split()
    incl = ''
    for ln in open(src).read().split('\n'):
        m = re.match(r'#include "(\w+\.cpp)"', ln)
        if m:
            incl += open(os.path.join(HERE, m.group(1))).read()
    key = hashlib.sha1((L.repo_hash() + open(src).read() + incl + open(os.path.join(HERE, 'args.h')).read() + ' '.join(extradefs)).encode()).hexdigest()[:16]
    d = os.path.join(ROOT, '.work', 'replay', driver + '-' + key)
    exe = os.path.join(d, driver)
    if os.path.exists(exe):
        return exe, None
    os.makedirs(d, exist_ok=True)
    r = subprocess.run(['g++'] + FLAGS + extradefs + ['-I', HERE, src] + [os.path.join(REPO, x) for x in extra] + [lib, '-o', exe, '-lpthread'],
                       capture_output=True, text=True)
    if r.returncode != 0:
        return None, 'link failed: ' + (r.stderr or r.stdout)[-1500:]
    return exe, None


def all_sources():
    out = []
    for sub in ['', 'FMIndex', 'Hash', 'Huffman', 'HuTucker', 'RePair', 'RePair/Coder', 'utils', 'utils/Coder', 'XBW']:
        d = os.path.join(REPO, sub)
        for f in sorted(os.listdir(d)):
            if f.endswith('.cpp') and f not in ('Build.cpp', 'Test.cpp'):
                out.append(os.path.join(sub, f) if sub else f)
    for root, dirs, files in os.walk(os.path.join(REPO, 'libcds', 'src')):
        for f in sorted(files):
            if f.endswith('.cpp'):
                out.append(os.path.relpath(os.path.join(root, f), REPO))
    return out


def run(driver, res, prop):
    exe, err = build(driver, res.get('defs'))
    if not exe:
        return 'none', err
    args = ['ob=' + res['ob'], 'instance=' + res['instance']]
    for d in res.get('defs') or []:
        if d.startswith('-D') and '=' in d:
            args.append(d[2:])
    for k, v in (res.get('cex', {}).get('inputs') or {}).items():
        k = re.sub(r'\[(\d+)l?\]', r'[\1]', k)
        cv = clean(v)
        if cv is not None:
            args.append('%s=%s' % (k, cv))
    env = dict(os.environ, ASAN_OPTIONS='detect_leaks=0:abort_on_error=0:exitcode=1', UBSAN_OPTIONS='halt_on_error=1:exitcode=1:print_stacktrace=0')
    try:
        r = subprocess.run([exe] + args, capture_output=True, text=True, errors='replace', timeout=120, env=env)
    except subprocess.TimeoutExpired:
        return 'reproduced', 'native run did not terminate within 120 s; args: ' + ' '.join(args)
    out = (r.stdout + r.stderr)[-3000:]
    if r.returncode == 0:
        return 'not-reproduced', 'native run satisfies the property; args: %s; output: %s' % (' '.join(args), out[-400:])
    if r.returncode == 2:
        return 'none', 'replay driver could not use the counterexample: ' + out[-600:]
    return 'reproduced', 'native run (ASan+UBSan build of /repo sources) fails: %s | args: %s' % ((out.strip()[:900] + ' ... ' + out.strip()[-300:]), ' '.join(args))

"""Native replay of CBMC counterexamples against the real C++ code of /repo.

run(driver, result, prop) -> (verdict, detail)
  verdict: 'reproduced'      the real code violates the property on the counterexample input
           'not-reproduced'  the real code satisfies the property on that input
           'none'            no usable replay (driver missing, build error, inputs incomplete)
Drivers are /verif/replay/<driver>.cpp; they are compiled with ASan+UBSan against
the translation units of /repo's working tree named in their first line:
   // SOURCES: utils/LogSequence.cpp ...
and get the counterexample as argv "name=value" pairs plus "ob=<obligation>".
Driver exit code: 0 holds, 1 violated (message on stdout), 2 inputs unusable.
A sanitizer report counts as violated.
"""
import hashlib
import os
import re
import subprocess
import sys

HERE = os.path.dirname(os.path.abspath(__file__))
ROOT = os.path.dirname(HERE)
sys.path.insert(0, os.path.join(ROOT, 'tools'))
import lower as L  # noqa: E402

REPO = L.REPO
ALL_SOURCES_CACHE = {}


def clean(v):
    if v is None:
        return None
    if isinstance(v, bool):
        return '1' if v else '0'
    v = str(v)
    m = re.match(r"^(-?\d+)(u|l|ul|ull|ll|lu)?$", v)
    if m:
        return m.group(1)
    m = re.match(r"^'(.)'$", v)
    if m:
        return str(ord(m.group(1)))
    return v


def build(driver):
    src = os.path.join(HERE, driver + '.cpp')
    if not os.path.exists(src):
        return None, 'driver %s.cpp missing' % driver
    first = open(src).readline()
    m = re.match(r'//\s*SOURCES:\s*(.*)$', first)
    srcs = m.group(1).split() if m else []
    if srcs == ['ALL']:
        srcs = all_sources()
    key = hashlib.sha1((L.repo_hash() + open(src).read()).encode()).hexdigest()[:16]
    d = os.path.join(ROOT, '.work', 'replay', driver + '-' + key)
    exe = os.path.join(d, driver)
    if os.path.exists(exe):
        return exe, None
    os.makedirs(d, exist_ok=True)
    objs = []
    flags = ['-std=c++17', '-O1', '-g', '-w', '-fsanitize=address,undefined', '-fno-sanitize-recover=undefined',
             '-fno-access-control', '-I', REPO, '-I', REPO + '/libcds/includes', '-DLIBCSD_VERIF_REPLAY']
    procs = []
    for s in srcs:
        o = os.path.join(d, re.sub(r'[^A-Za-z0-9]', '_', s) + '.o')
        objs.append(o)
        procs.append((s, subprocess.Popen(['g++'] + flags + ['-c', os.path.join(REPO, s), '-o', o],
                                          stdout=subprocess.PIPE, stderr=subprocess.STDOUT, text=True)))
        if len(procs) >= 16:
            s_, p = procs.pop(0)
            out = p.communicate()[0]
            if p.returncode != 0:
                return None, 'compile of %s failed: %s' % (s_, out[-1500:])
    for s_, p in procs:
        out = p.communicate()[0]
        if p.returncode != 0:
            return None, 'compile of %s failed: %s' % (s_, out[-1500:])
    r = subprocess.run(['g++'] + flags + [src] + objs + ['-o', exe, '-lpthread'], capture_output=True, text=True)
    if r.returncode != 0:
        return None, 'link failed: ' + (r.stderr or r.stdout)[-1500:]
    return exe, None


def all_sources():
    out = []
    for sub in ['', 'FMIndex', 'Hash', 'Huffman', 'HuTucker', 'RePair', 'RePair/Coder', 'utils', 'utils/Coder', 'XBW']:
        d = os.path.join(REPO, sub)
        for f in sorted(os.listdir(d)):
            if f.endswith('.cpp') and f not in ('Build.cpp', 'Test.cpp'):
                out.append(os.path.join(sub, f) if sub else f)
    for root, dirs, files in os.walk(os.path.join(REPO, 'libcds', 'src')):
        for f in sorted(files):
            if f.endswith('.cpp'):
                out.append(os.path.relpath(os.path.join(root, f), REPO))
    return out


def run(driver, res, prop):
    exe, err = build(driver)
    if not exe:
        return 'none', err
    args = ['ob=' + res['ob'], 'instance=' + res['instance']]
    for d in res.get('defs') or []:
        if d.startswith('-D') and '=' in d:
            args.append(d[2:])
    for k, v in (res.get('cex', {}).get('inputs') or {}).items():
        k = re.sub(r'\[(\d+)l?\]', r'[\1]', k)
        cv = clean(v)
        if cv is not None:
            args.append('%s=%s' % (k, cv))
    env = dict(os.environ, ASAN_OPTIONS='detect_leaks=0:abort_on_error=0:exitcode=1', UBSAN_OPTIONS='halt_on_error=1:exitcode=1:print_stacktrace=0')
    try:
        r = subprocess.run([exe] + args, capture_output=True, text=True, timeout=120, env=env)
    except subprocess.TimeoutExpired:
        return 'reproduced', 'native run did not terminate within 120 s; args: ' + ' '.join(args)
    out = (r.stdout + r.stderr)[-3000:]
    if r.returncode == 0:
        return 'not-reproduced', 'native run satisfies the property; args: %s; output: %s' % (' '.join(args), out[-400:])
    if r.returncode == 2:
        return 'none', 'replay driver could not use the counterexample: ' + out[-600:]
    return 'reproduced', 'native run (ASan+UBSan build of /repo sources) fails: %s | args: %s' % (out.strip()[-1500:], ' '.join(args))

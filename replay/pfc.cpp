// SOURCES: StringDictionary.cpp StringDictionaryPFC.cpp utils/LogSequence.cpp utils/VByte.cpp
// End-to-end native replay for the PFC obligations: the counterexample's *abstract* input (string set, bucket
// size, query) is run through the real constructor and the real queries and compared with the plain definition
// (sort order, membership, prefix test).  Exit 1 (or a sanitizer report) = the property fails natively.
#include "args.h"
#include <algorithm>
#include <string>
#include <vector>
#include "StringDictionary.h"
#include "iterators/IteratorDictStringPlain.h"
typedef std::basic_string<unsigned char> ustr;
static ustr U(const std::string &s) { return ustr(s.begin(), s.end()); }
int main(int argc, char **argv) {
  Args a(argc, argv);
  unsigned NS = a.need("NS"), ML = a.need("ML"), BS = a.need("BS");
  std::vector<std::string> S;
  for (unsigned i = 0; i < NS; i++) {
    std::string s;
    char k[64];
    snprintf(k, sizeof k, "in.len[%u]", i);
    unsigned len = a.has(k) ? a.u(k) : ML;
    for (unsigned j = 0; j < len && j < ML; j++) {
      snprintf(k, sizeof k, "in.strs[%u][%u]", i, j);
      unsigned c = a.has(k) ? (a.u(k) & 255) : 0;
      if (c == 0) break;
      s.push_back((char)c);
    }
    if (s.empty()) { printf("string %u empty/missing in the counterexample\n", i); return 2; }
    S.push_back(s);
  }
  std::sort(S.begin(), S.end(), [](const std::string &x, const std::string &y) { return U(x) < U(y); });
  S.erase(std::unique(S.begin(), S.end()), S.end());
  size_t n = S.size();
  size_t total = 0; for (auto &s : S) total += s.size() + 1;
  unsigned char *buf = new unsigned char[total];
  size_t p = 0; for (auto &s : S) { memcpy(buf + p, s.c_str(), s.size() + 1); p += s.size() + 1; }
  IteratorDictStringPlain *it = new IteratorDictStringPlain(buf, total);
  StringDictionaryPFC *d = new StringDictionaryPFC(it, BS);
  size_t maxlen = 0; for (auto &s : S) maxlen = std::max(maxlen, s.size());
  // metadata
  if (d->numElements() != n) VIOLATED("numElements %zu != %zu", d->numElements(), n);
  if (d->maxLength() < maxlen || d->maxLength() > maxlen + 1) VIOLATED("maxLength %u vs longest %zu", d->maxLength(), maxlen);
  // round trip for every member
  for (size_t k = 0; k < n; k++) {
    uint len = 77;
    unsigned char *s = d->extract(k + 1, &len);
    if (!s || len != S[k].size() || memcmp(s, S[k].c_str(), len + 1) != 0) VIOLATED("extract(%zu) != member %zu", k + 1, k);
    delete[] s;
    std::vector<unsigned char> pat(S[k].begin(), S[k].end()); pat.push_back(0);
    std::vector<unsigned char> keep(pat);
    size_t id = d->locate(pat.data(), S[k].size());
    if (id != k + 1) VIOLATED("locate(member %zu) = %zu", k, id);
    if (pat != keep) VIOLATED("locate modified the pattern buffer");
    if (d->locateRank(k + 1) != k + 1) VIOLATED("locateRank");
    s = d->extractRank(k + 1, &len);
    if (!s || len != S[k].size() || memcmp(s, S[k].c_str(), len + 1) != 0) VIOLATED("extractRank(%zu)", k + 1);
    delete[] s;
  }
  { uint len = 77; if (d->extract(0, &len) != NULL || len != 0) VIOLATED("extract(0)"); len = 77; if (d->extract(n + 1, &len) != NULL || len != 0) VIOLATED("extract(n+1)");
    if (a.has("in_bad")) { size_t b = a.u("in_bad"); if (b == 0 || b > n) { len = 77; if (d->extract(b, &len) != NULL || len != 0) VIOLATED("extract(bad id %zu)", b); } } }
  // table scan
  { IteratorDictString *t = d->extractTable(); size_t k = 0;
    while (t->hasNext()) { uint len; unsigned char *s = t->next(&len); if (k >= n || len != S[k].size() || memcmp(s, S[k].c_str(), len + 1)) VIOLATED("table scan element %zu", k); delete[] s; k++; }
    if (k != n) VIOLATED("table scan yields %zu of %zu", k, n); delete t; }
  // query pattern
  std::string ob = a.str("ob");
  bool needs_pattern = ob == "pfc_absent" || ob == "pfc_prefix" || ob == "pfc_extractPrefix";
  if (needs_pattern && !a.has("in_q[0]")) { printf("the counterexample carries no query pattern\n"); return 2; }
  if (a.has("in_qlen") || a.has("in_q[0]")) {
    unsigned ql = 0;
    if (a.has("in_qlen")) ql = a.u("in_qlen");
    else { for (;; ql++) { char k[64]; snprintf(k, sizeof k, "in_q[%u]", ql); if (!a.has(k) || (a.u(k) & 255) == 0) break; } }
    std::vector<unsigned char> q;
    for (unsigned j = 0; j < ql; j++) { char k[64]; snprintf(k, sizeof k, "in_q[%u]", j); unsigned c = a.has(k) ? (a.u(k) & 255) : 0; if (!c) { printf("pattern byte %u missing\n", j); return 2; } q.push_back(c); }
    q.push_back(0);
    std::string qs((char *)q.data());
    std::vector<unsigned char> keep(q);
    bool member = std::find(S.begin(), S.end(), qs) != S.end();
    size_t id = d->locate(q.data(), ql);
    if (!member && id != 0) VIOLATED("locate(non-member \"%s\") = %zu", qs.c_str(), id);
    if (member && (id < 1 || id > n || S[id - 1] != qs)) VIOLATED("locate(member) = %zu", id);
    if (q != keep) VIOLATED("locate modified the pattern buffer");
    long L = -1, R = -1;
    for (size_t k = 0; k < n; k++) if (S[k].compare(0, ql, qs) == 0 && S[k].size() >= ql) { if (L < 0) L = k; R = k; }
    IteratorDictIDContiguous *pi = (IteratorDictIDContiguous *)d->locatePrefix(q.data(), ql);
    if (!pi) VIOLATED("locatePrefix returned NULL");
    if (L < 0) { if (pi->getLeftLimit() != 0 || pi->getRightLimit() != 0 || pi->hasNext()) VIOLATED("locatePrefix(\"%s\") no member has the prefix but limits are [%zu,%zu]", qs.c_str(), pi->getLeftLimit(), pi->getRightLimit()); }
    else {
      if (pi->getLeftLimit() != (size_t)L + 1 || pi->getRightLimit() != (size_t)R + 1) VIOLATED("locatePrefix(\"%s\") = [%zu,%zu], expected [%ld,%ld]", qs.c_str(), pi->getLeftLimit(), pi->getRightLimit(), L + 1, R + 1);
      size_t e = L + 1; while (pi->hasNext()) { if (pi->next() != e) VIOLATED("prefix ID stream"); e++; } if (e != (size_t)R + 2) VIOLATED("prefix ID stream length");
    }
    delete pi;
    if (q != keep) VIOLATED("locatePrefix modified the pattern buffer");
    IteratorDictString *ps = d->extractPrefix(q.data(), ql);
    if (L < 0) { if (ps) VIOLATED("extractPrefix of an absent prefix returned an iterator"); }
    else { if (!ps) VIOLATED("extractPrefix NULL"); long k = L; while (ps->hasNext()) { uint len; unsigned char *s = ps->next(&len); if (k > R || len != S[k].size() || memcmp(s, S[k].c_str(), len + 1)) VIOLATED("extractPrefix element %ld", k); delete[] s; k++; } if (k != R + 1) VIOLATED("extractPrefix count"); delete ps; }
  }
  delete d;
  return 0;
}

// C08 natively: build a HASHRPDAC / HASHRPF dictionary, save, load through the generic loader, save the loaded object again:
// the second image must start with the same type tag and load again.  (ASan+UBSan build.)
#include "args.h"
#include <sstream>
#include <string>
#include <vector>
#include "StringDictionary.h"
#include "iterators/IteratorDictStringPlain.h"
static size_t g_total;
static IteratorDictStringPlain *mkit(const std::vector<std::string> &S) {
  size_t total = 0; for (auto &s : S) total += s.size() + 1;
  unsigned char *buf = new unsigned char[total]; size_t p = 0;
  for (auto &s : S) { memcpy(buf + p, s.c_str(), s.size() + 1); p += s.size() + 1; }
  g_total = total;
  return new IteratorDictStringPlain(buf, total);
}
static int check(StringDictionary *d, const char *kind) {
  std::stringstream s1; d->save(s1);
  std::string img1 = s1.str();
  std::stringstream in1(img1);
  StringDictionary *l = StringDictionary::load(in1, 1);
  if (!l) { printf("%s: generic loader rejects a freshly saved image\n", kind); return 1; }
  std::stringstream s2; l->save(s2);
  std::string img2 = s2.str();
  if (img2.size() < 4 || memcmp(img1.data(), img2.data(), 4) != 0) { printf("PROPERTY VIOLATED: %s: re-saved image has type tag %u, original %u\n", kind, (unsigned)(unsigned char)img2[0], (unsigned)(unsigned char)img1[0]); return 1; }
  std::stringstream in2(img2);
  StringDictionary *l2 = StringDictionary::load(in2, 1);
  if (!l2) { printf("PROPERTY VIOLATED: %s: the image written by a loaded dictionary is rejected by the loader\n", kind); return 1; }
  if (l2->numElements() != d->numElements()) { printf("PROPERTY VIOLATED: %s numElements after two round trips\n", kind); return 1; }
  return 0;
}
int main(int argc, char **argv) {
  std::vector<std::string> S;
  for (int i = 0; i < 40; i++) { char b[32]; snprintf(b, sizeof b, "key%02d/value%d", i, i * 7); S.push_back(b); }
  int rc = 0;
  IteratorDictStringPlain *i1 = mkit(S);
  rc |= check(new StringDictionaryHASHRPDAC(i1, g_total, 50), "HASHRPDAC");
  IteratorDictStringPlain *i2 = mkit(S);
  rc |= check(new StringDictionaryHASHRPF(i2, g_total, 50), "HASHRPF");
  return rc;
}

// C08/C07 natively: saving a HASHUFFDAC dictionary must not read outside the arrays it owns (ASan+UBSan build)
#include "args.h"
#include <algorithm>
#include <sstream>
#include <string>
#include <vector>
#include "StringDictionary.h"
#include "iterators/IteratorDictStringPlain.h"
int main(int argc, char **argv) {
  std::vector<std::string> S;
  for (int i = 0; i < 30; i++) { char b[32]; snprintf(b, sizeof b, "w%02d%c", i, 'a' + i % 5); S.push_back(b); }
  std::sort(S.begin(), S.end());
  size_t total = 0; for (auto &s : S) total += s.size() + 1;
  unsigned char *buf = new unsigned char[total]; size_t p = 0;
  for (auto &s : S) { memcpy(buf + p, s.c_str(), s.size() + 1); p += s.size() + 1; }
  StringDictionary *d = new StringDictionaryHASHUFFDAC(new IteratorDictStringPlain(buf, total), total, 50);
  std::stringstream ss; d->save(ss);
  std::stringstream ss2; d->save(ss2);
  if (ss.str() != ss2.str()) VIOLATED("two saves of the same HASHUFFDAC object differ");
  return 0;
}

// native sanity for the DAC hand-over in the HASHRPDAC / RPDAC constructors: round trip on many small random sets
// (short strings, including one-character strings), ASan+UBSan build
#include "args.h"
#include <algorithm>
#include <string>
#include <vector>
#include "StringDictionary.h"
#include "iterators/IteratorDictStringPlain.h"
static IteratorDictStringPlain *mkit(const std::vector<std::string> &S, size_t *total) {
  *total = 0; for (auto &s : S) *total += s.size() + 1;
  unsigned char *buf = new unsigned char[*total]; size_t p = 0;
  for (auto &s : S) { memcpy(buf + p, s.c_str(), s.size() + 1); p += s.size() + 1; }
  return new IteratorDictStringPlain(buf, *total);
}
static int roundtrip(StringDictionary *d, const std::vector<std::string> &S, const char *kind, bool ordered) {
  if (d->numElements() != S.size()) { printf("PROPERTY VIOLATED: %s numElements %zu != %zu\n", kind, d->numElements(), S.size()); return 1; }
  std::vector<bool> seen(S.size() + 1, false);
  for (size_t k = 0; k < S.size(); k++) {
    std::vector<unsigned char> pat(S[k].begin(), S[k].end()); pat.push_back(0);
    size_t id = d->locate(pat.data(), S[k].size());
    if (id < 1 || id > S.size() || seen[id] || (ordered && id != k + 1)) { printf("PROPERTY VIOLATED: %s locate(\"%s\") = %zu (n=%zu)\n", kind, S[k].c_str(), id, S.size()); return 1; }
    seen[id] = true;
    uint len; unsigned char *s = d->extract(id, &len);
    if (!s || len != S[k].size() || memcmp(s, S[k].c_str(), len + 1)) { printf("PROPERTY VIOLATED: %s extract(locate(\"%s\"))\n", kind, S[k].c_str()); return 1; }
    delete[] s;
  }
  return 0;
}
int main(int argc, char **argv) {
  unsigned seed = 7; int rc = 0;
  for (int round = 0; round < 150 && !rc; round++) {
    std::vector<std::string> S; int n = 1 + round % 7;
    for (int i = 0; i < n; i++) { seed = seed * 1103515245 + 12345; int len = 1 + (seed >> 16) % 4; std::string t; for (int k = 0; k < len; k++) { seed = seed * 1103515245 + 12345; t.push_back('a' + (seed >> 16) % 3); } S.push_back(t); }
    std::sort(S.begin(), S.end()); S.erase(std::unique(S.begin(), S.end()), S.end());
    size_t total;
    IteratorDictStringPlain *it = mkit(S, &total);
    rc |= roundtrip(new StringDictionaryRPDAC(it), S, "RPDAC", true);
    it = mkit(S, &total);
    rc |= roundtrip(new StringDictionaryHASHRPDAC(it, total, 50), S, "HASHRPDAC", false);
  }
  return rc;
}

// SOURCES: utils/LogSequence.cpp
// replay of LS.* counterexamples on the real LogSequence (packed integer array)
#include "args.h"
#include "utils/LogSequence.h"
int main(int argc, char **argv) {
  Args a(argc, argv);
  unsigned w = a.need("WIDTH");
  std::string ob = a.str("ob");
  if (ob == "ls_roundtrip") {
    // public API only: a LogSequence of the given width with 4 words of capacity
    size_t cap = 256 / w;
    LogSequence ls(w, cap);
    size_t idx = a.need("in_idx"), other = a.need("in_other"), v = a.need("in_v");
    if (idx >= cap || other >= cap || idx == other) return 2;
    size_t maxv = w >= 64 ? ~(size_t)0 : (((size_t)1 << w) - 1);
    // bring the words into the counterexample's initial state through the raw array (friend access)
    for (int q = 0; q < 4; q++) { char k[32]; snprintf(k, sizeof k, "in_data[%d]", q); if (a.has(k) && (size_t)q < ls.arraysize) ls.array[q] = a.u(k); }
    size_t before = ls.getField(other);
    ls.setField(idx, v & maxv);
    if (ls.getField(idx) != (v & maxv)) VIOLATED("width %u: stored %zu at %zu, read back %zu", w, (size_t)(v & maxv), idx, ls.getField(idx));
    if (ls.getField(other) != before) VIOLATED("width %u: storing at %zu changed position %zu from %zu to %zu", w, idx, other, before, ls.getField(other));
    return 0;
  }
  if (ob == "ls_setField" || ob == "ls_getField") {
    size_t n = a.need("in_n"), pos = a.need("in_pos");
    if (n == 0 || pos >= n) return 2;
    LogSequence ls(w, n);
    size_t maxv = w >= 64 ? ~(size_t)0 : (((size_t)1 << w) - 1);
    size_t v = a.u("in_val", 0) & maxv;
    ls.setField(pos, maxv);  // all ones first, then the value: a stale mask shows as a wrong read-back
    ls.setField(pos, v);
    if (ls.getField(pos) != v) VIOLATED("width %u: setField(%zu,%zu) after all-ones reads back %zu", w, pos, v, ls.getField(pos));
    return 0;
  }
  return 2;
}

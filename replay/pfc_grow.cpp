// PFC constructor growth path: same end-to-end checks as pfc.cpp, with the real StringDictionaryPFC.cpp compiled
// with the LIBCSD_VERIF hook so that the initial buffer has MEMALLOC*bucketsize bytes as in the obligation.
// EXTRA: StringDictionaryPFC.cpp
// EXTRADEFS: -DLIBCSD_VERIF -DLIBCSD_VERIF_MEMALLOC={MEMALLOC}
#include "pfc.cpp"

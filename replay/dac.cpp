// replay of DAC_VLS counterexamples: the list (shape from L0,L1,L2; symbols from in_sym[s][k]) goes through the real
// constructor; every sequence is read back with access and access_next (ASan+UBSan build)
#include "args.h"
#include <vector>
#include "utils/DAC_VLS.h"
int main(int argc, char **argv) {
  Args a(argc, argv);
  unsigned L[3] = {(unsigned)a.need("L0"), (unsigned)a.u("L1", 0), (unsigned)a.u("L2", 0)};
  unsigned logr = a.need("LOGR");
  std::vector<std::vector<unsigned>> seqs;
  std::vector<int> list;
  unsigned maxl = 0;
  for (int s = 0; s < 3; s++) {
    if (!L[s]) continue;
    std::vector<unsigned> q;
    for (unsigned k = 0; k < L[s]; k++) { char key[64]; snprintf(key, sizeof key, "in_sym[%d][%u]", s, k); unsigned v = a.u(key, 0); if (logr < 31) v &= (1u << logr) - 1; q.push_back(v); list.push_back((int)v); }
    list.push_back(-1);
    seqs.push_back(q); if (L[s] > maxl) maxl = L[s];
  }
  DAC_VLS *d = new DAC_VLS(list.data(), list.size(), logr, maxl);
  if (d->getListLength() != seqs.size()) VIOLATED("list length %u != %zu", d->getListLength(), seqs.size());
  for (size_t s = 0; s < seqs.size(); s++) {
    uint *out; uint l = d->access(s + 1, &out);
    if (l != seqs[s].size()) VIOLATED("access(%zu) length %u, stored %zu", s + 1, l, seqs[s].size());
    for (unsigned k = 0; k < l; k++) if (out[k] != seqs[s][k]) VIOLATED("access(%zu)[%u] = %u, stored %u", s + 1, k, out[k], seqs[s][k]);
    delete[] out;
    uint pos = s + 1;
    for (unsigned k = 0; k < seqs[s].size(); k++) { if (pos == (uint)-1) VIOLATED("access_next ended early"); uint v = d->access_next(k, &pos); if (v != seqs[s][k]) VIOLATED("access_next(%zu)[%u]", s + 1, k); }
    if (pos != (uint)-1) VIOLATED("access_next does not signal the end");
  }
  delete d;
  return 0;
}

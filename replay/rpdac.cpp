// end-to-end native replay for the RPDAC constructor obligation: the strings of the counterexample (shape L0,L1,L2; bytes
// in_strs[s][k]) go through the real StringDictionaryRPDAC constructor (real Re-Pair compressor, real DAC); every member
// must be located and extracted (ASan+UBSan build)
#include "args.h"
#include <algorithm>
#include <string>
#include <vector>
#include "StringDictionary.h"
#include "iterators/IteratorDictStringPlain.h"
int main(int argc, char **argv) {
  Args a(argc, argv);
  unsigned L[3] = {(unsigned)a.need("L0"), (unsigned)a.u("L1", 0), (unsigned)a.u("L2", 0)};
  std::vector<std::string> S;
  for (int s = 0, idx = 0; s < 3; s++) {
    if (!L[s]) continue;
    std::string t;
    for (unsigned k = 0; k < L[s]; k++) { char key[64]; snprintf(key, sizeof key, "in_strs[%d][%u]", idx, k); unsigned c = a.has(key) ? (a.u(key) & 255) : ('a' + idx); if (!c) c = 'a'; t.push_back((char)c); }
    S.push_back(t); idx++;
  }
  std::sort(S.begin(), S.end(), [](const std::string &x, const std::string &y) { return std::basic_string<unsigned char>(x.begin(), x.end()) < std::basic_string<unsigned char>(y.begin(), y.end()); });
  S.erase(std::unique(S.begin(), S.end()), S.end());
  size_t total = 0; for (auto &s : S) total += s.size() + 1;
  unsigned char *buf = new unsigned char[total]; size_t p = 0;
  for (auto &s : S) { memcpy(buf + p, s.c_str(), s.size() + 1); p += s.size() + 1; }
  StringDictionaryRPDAC *d = new StringDictionaryRPDAC(new IteratorDictStringPlain(buf, total));
  if (d->numElements() != S.size()) VIOLATED("numElements %zu != %zu", d->numElements(), S.size());
  for (size_t k = 0; k < S.size(); k++) {
    std::vector<unsigned char> pat(S[k].begin(), S[k].end()); pat.push_back(0);
    size_t id = d->locate(pat.data(), S[k].size());
    if (id != k + 1) VIOLATED("RPDAC: locate(\"%s\") = %zu, expected %zu (set of %zu strings)", S[k].c_str(), id, k + 1, S.size());
    uint len; unsigned char *s = d->extract(k + 1, &len);
    if (!s || len != S[k].size() || memcmp(s, S[k].c_str(), len + 1)) VIOLATED("RPDAC: extract(%zu)", k + 1);
    delete[] s;
  }
  return 0;
}

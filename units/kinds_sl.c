//@ unit kinds_sl
//@ autostub havoc
//@ global PFC RPFC HTFC HHTFC RPHTFC RPDAC FMINDEX DXBW HASHHF HASHUFFDAC HASHRPF HASHRPDAC HASHUFF HASHBHUFF HASHBBHUFF HASHRP HASHBRP HASHBBRP
//@ class StringDictionary tu=StringDictionaryRPFC.cpp
//@ class SSA tu=StringDictionaryFMINDEX.cpp
//@ class XBW tu=StringDictionaryXBW.cpp
//@ class StringDictionaryPFC tu=StringDictionaryPFC.cpp
//@ class StringDictionaryRPFC tu=StringDictionaryRPFC.cpp
//@ class StringDictionaryHTFC tu=StringDictionaryHTFC.cpp
//@ class StringDictionaryHHTFC tu=StringDictionaryHHTFC.cpp
//@ class StringDictionaryRPHTFC tu=StringDictionaryRPHTFC.cpp
//@ class StringDictionaryRPDAC tu=StringDictionaryRPDAC.cpp
//@ class StringDictionaryHASHHF tu=StringDictionaryHASHHF.cpp
//@ class StringDictionaryHASHRPF tu=StringDictionaryHASHRPF.cpp
//@ class StringDictionaryHASHUFFDAC tu=StringDictionaryHASHUFFDAC.cpp
//@ class StringDictionaryHASHRPDAC tu=StringDictionaryHASHRPDAC.cpp
//@ class StringDictionaryFMINDEX tu=StringDictionaryFMINDEX.cpp
//@ class StringDictionaryXBW tu=StringDictionaryXBW.cpp
//@ tu StringDictionaryPFC.cpp
//@ fn StringDictionaryPFC::load
//@ fn StringDictionaryPFC::save
//@ tu StringDictionaryRPFC.cpp
//@ fn StringDictionaryRPFC::load
//@ fn StringDictionaryRPFC::save
//@ tu StringDictionaryHTFC.cpp
//@ fn StringDictionaryHTFC::load
//@ fn StringDictionaryHTFC::save
//@ tu StringDictionaryHHTFC.cpp
//@ fn StringDictionaryHHTFC::load
//@ fn StringDictionaryHHTFC::save
//@ tu StringDictionaryRPHTFC.cpp
//@ fn StringDictionaryRPHTFC::load
//@ fn StringDictionaryRPHTFC::save
//@ tu StringDictionaryRPDAC.cpp
//@ fn StringDictionaryRPDAC::load
//@ fn StringDictionaryRPDAC::save
//@ tu StringDictionaryHASHHF.cpp
//@ fn StringDictionaryHASHHF::load
//@ fn StringDictionaryHASHHF::save
//@ tu StringDictionaryHASHRPF.cpp
//@ fn StringDictionaryHASHRPF::load
//@ fn StringDictionaryHASHRPF::save
//@ tu StringDictionaryHASHUFFDAC.cpp
//@ fn StringDictionaryHASHUFFDAC::load
//@ fn StringDictionaryHASHUFFDAC::save
//@ tu StringDictionaryHASHRPDAC.cpp
//@ fn StringDictionaryHASHRPDAC::load
//@ fn StringDictionaryHASHRPDAC::save
//@ tu StringDictionaryFMINDEX.cpp
//@ fn StringDictionaryFMINDEX::load
//@ fn StringDictionaryFMINDEX::save
//@ ob hdr_PFC entry=h_hdr_PFC tier=C props=C06,C08,C15 kind=statement unwind=10
//@ ob hdr_RPFC entry=h_hdr_RPFC tier=C props=C06,C08,C15 kind=statement unwind=10
//@ ob hdr_HTFC entry=h_hdr_HTFC tier=C props=C06,C08,C15 kind=statement unwind=10
//@ ob hdr_HHTFC entry=h_hdr_HHTFC tier=C props=C06,C08,C15 kind=statement unwind=10
//@ ob hdr_RPHTFC entry=h_hdr_RPHTFC tier=C props=C06,C08,C15 kind=statement unwind=10
//@ ob hdr_RPDAC entry=h_hdr_RPDAC tier=C props=C06,C08,C15 kind=statement unwind=10
//@ ob hdr_HASHHF entry=h_hdr_HASHHF tier=C props=C06,C08,C15 kind=statement unwind=10
//@ ob hdr_HASHRPF entry=h_hdr_HASHRPF tier=C props=C06,C08,C15 kind=statement unwind=10
//@ ob hdr_HASHUFFDAC entry=h_hdr_HASHUFFDAC tier=C props=C06,C08,C15 kind=statement unwind=10
//@ ob hdr_HASHRPDAC entry=h_hdr_HASHRPDAC tier=C props=C06,C08,C15 kind=statement unwind=10
//@ ob hdr_FMINDEX entry=h_hdr_FMINDEX tier=C props=C06,C08,C15 kind=statement unwind=10
#define VSTREAM_HAVOC_ARRAY_LOAD
#include "vstream.h"
typedef struct Codeword Codeword;
//@ structs
/* UNDECIDED: XBW is left out: StringDictionaryXBW::save writes raw arrays of symbolic length and load delegates to the XBW constructor */
/* TRUSTED: component save/load (grammar, hash table, bitmaps, decoding tables, FM-index, XBW) are outside this obligation: havoc stubs that do not move the stream; array payloads are skipped by save and load alike. What is decided: every *scalar header field* a kind's save writes is the field its load reads back, in the same order. */
SSA *SSA__load(struct vstream *a0);
static inline void saveValue__Codeword__3(struct vstream *out, const Codeword *val, const size_t len) { (void)out; (void)val; (void)len; }
static inline Codeword *loadValue__Codeword__2(struct vstream *in, const size_t len) { Codeword *r_; return r_; }
//@ lowered
static SSA g_ssa; SSA *SSA__load(struct vstream *a0) { return &g_ssa; }
void h_hdr_PFC(void) { static uchar buf[256]; struct vstream out = {buf, 0, 256}, in; StringDictionaryPFC *d = malloc(sizeof(StringDictionaryPFC)); __CPROVER_assume(d != NULL); d->type = PFC; StringDictionaryPFC__save(d, &out); in = out; in.pos = 0; StringDictionaryPFC *r = (StringDictionaryPFC *)StringDictionaryPFC__load(&in); __CPROVER_assert(r != NULL, "C06: the kind's loader accepts the image its save wrote"); __CPROVER_assert(in.pos == out.pos, "C06: header fields: load consumes what save wrote"); __CPROVER_assert(r->elements == d->elements && r->maxlength == d->maxlength && r->buckets == d->buckets && r->bucketsize == d->bucketsize && r->bytesStrings == d->bytesStrings, "C06/C15/C08: every scalar header field survives save/load (numElements, maxLength, ...)"); REACH_POINT(); }
void h_hdr_RPFC(void) { static uchar buf[256]; struct vstream out = {buf, 0, 256}, in; StringDictionaryRPFC *d = malloc(sizeof(StringDictionaryRPFC)); __CPROVER_assume(d != NULL); d->type = RPFC; StringDictionaryRPFC__save(d, &out); in = out; in.pos = 0; StringDictionaryRPFC *r = (StringDictionaryRPFC *)StringDictionaryRPFC__load(&in); __CPROVER_assert(r != NULL, "C06: the kind's loader accepts the image its save wrote"); __CPROVER_assert(in.pos == out.pos, "C06: header fields: load consumes what save wrote"); __CPROVER_assert(r->elements == d->elements && r->maxlength == d->maxlength && r->buckets == d->buckets && r->bucketsize == d->bucketsize && r->bytesStrings == d->bytesStrings && r->bitsrp == d->bitsrp, "C06/C15/C08: every scalar header field survives save/load (numElements, maxLength, ...)"); REACH_POINT(); }
void h_hdr_HTFC(void) { static uchar buf[256]; struct vstream out = {buf, 0, 256}, in; StringDictionaryHTFC *d = malloc(sizeof(StringDictionaryHTFC)); __CPROVER_assume(d != NULL); d->type = HTFC; StringDictionaryHTFC__save(d, &out); in = out; in.pos = 0; StringDictionaryHTFC *r = (StringDictionaryHTFC *)StringDictionaryHTFC__load(&in); __CPROVER_assert(r != NULL, "C06: the kind's loader accepts the image its save wrote"); __CPROVER_assert(in.pos == out.pos, "C06: header fields: load consumes what save wrote"); __CPROVER_assert(r->elements == d->elements && r->maxlength == d->maxlength && r->maxcomplength == d->maxcomplength && r->buckets == d->buckets && r->bucketsize == d->bucketsize && r->bytesStrings == d->bytesStrings, "C06/C15/C08: every scalar header field survives save/load (numElements, maxLength, ...)"); REACH_POINT(); }
void h_hdr_HHTFC(void) { static uchar buf[256]; struct vstream out = {buf, 0, 256}, in; StringDictionaryHHTFC *d = malloc(sizeof(StringDictionaryHHTFC)); __CPROVER_assume(d != NULL); d->type = HHTFC; StringDictionaryHHTFC__save(d, &out); in = out; in.pos = 0; StringDictionaryHHTFC *r = (StringDictionaryHHTFC *)StringDictionaryHHTFC__load(&in); __CPROVER_assert(r != NULL, "C06: the kind's loader accepts the image its save wrote"); __CPROVER_assert(in.pos == out.pos, "C06: header fields: load consumes what save wrote"); __CPROVER_assert(r->elements == d->elements && r->maxlength == d->maxlength && r->maxcomplength == d->maxcomplength && r->buckets == d->buckets && r->bucketsize == d->bucketsize && r->bytesStrings == d->bytesStrings, "C06/C15/C08: every scalar header field survives save/load (numElements, maxLength, ...)"); REACH_POINT(); }
void h_hdr_RPHTFC(void) { static uchar buf[256]; struct vstream out = {buf, 0, 256}, in; StringDictionaryRPHTFC *d = malloc(sizeof(StringDictionaryRPHTFC)); __CPROVER_assume(d != NULL); d->type = RPHTFC; StringDictionaryRPHTFC__save(d, &out); in = out; in.pos = 0; StringDictionaryRPHTFC *r = (StringDictionaryRPHTFC *)StringDictionaryRPHTFC__load(&in); __CPROVER_assert(r != NULL, "C06: the kind's loader accepts the image its save wrote"); __CPROVER_assert(in.pos == out.pos, "C06: header fields: load consumes what save wrote"); __CPROVER_assert(r->elements == d->elements && r->maxlength == d->maxlength && r->maxcomplength == d->maxcomplength && r->buckets == d->buckets && r->bucketsize == d->bucketsize && r->bytesStrings == d->bytesStrings && r->bitsrp == d->bitsrp, "C06/C15/C08: every scalar header field survives save/load (numElements, maxLength, ...)"); REACH_POINT(); }
void h_hdr_RPDAC(void) { static uchar buf[256]; struct vstream out = {buf, 0, 256}, in; StringDictionaryRPDAC *d = malloc(sizeof(StringDictionaryRPDAC)); __CPROVER_assume(d != NULL); d->type = RPDAC; StringDictionaryRPDAC__save(d, &out); in = out; in.pos = 0; StringDictionaryRPDAC *r = (StringDictionaryRPDAC *)StringDictionaryRPDAC__load(&in); __CPROVER_assert(r != NULL, "C06: the kind's loader accepts the image its save wrote"); __CPROVER_assert(in.pos == out.pos, "C06: header fields: load consumes what save wrote"); __CPROVER_assert(r->elements == d->elements && r->maxlength == d->maxlength, "C06/C15/C08: every scalar header field survives save/load (numElements, maxLength, ...)"); REACH_POINT(); }
void h_hdr_HASHHF(void) { static uchar buf[256]; struct vstream out = {buf, 0, 256}, in; StringDictionaryHASHHF *d = malloc(sizeof(StringDictionaryHASHHF)); __CPROVER_assume(d != NULL); d->type = HASHHF; uint in_opt; __CPROVER_assume(in_opt >= 1 && in_opt <= 3); StringDictionaryHASHHF__save(d, &out); in = out; in.pos = 0; StringDictionaryHASHHF *r = (StringDictionaryHASHHF *)StringDictionaryHASHHF__load(&in, in_opt); __CPROVER_assert(r != NULL, "C06: the kind's loader accepts the image its save wrote"); __CPROVER_assert(in.pos == out.pos, "C06: header fields: load consumes what save wrote"); __CPROVER_assert(r->elements == d->elements && r->maxlength == d->maxlength && r->maxcomplength == d->maxcomplength && r->bytesStrings == d->bytesStrings, "C06/C15/C08: every scalar header field survives save/load (numElements, maxLength, ...)"); REACH_POINT(); }
void h_hdr_HASHRPF(void) { static uchar buf[256]; struct vstream out = {buf, 0, 256}, in; StringDictionaryHASHRPF *d = malloc(sizeof(StringDictionaryHASHRPF)); __CPROVER_assume(d != NULL); d->type = HASHRPF; uint in_opt; __CPROVER_assume(in_opt >= 1 && in_opt <= 3); StringDictionaryHASHRPF__save(d, &out); in = out; in.pos = 0; StringDictionaryHASHRPF *r = (StringDictionaryHASHRPF *)StringDictionaryHASHRPF__load(&in, in_opt); __CPROVER_assert(r != NULL, "C06: the kind's loader accepts the image its save wrote"); __CPROVER_assert(in.pos == out.pos, "C06: header fields: load consumes what save wrote"); __CPROVER_assert(r->elements == d->elements && r->maxlength == d->maxlength, "C06/C15/C08: every scalar header field survives save/load (numElements, maxLength, ...)"); REACH_POINT(); }
void h_hdr_HASHUFFDAC(void) { static uchar buf[256]; struct vstream out = {buf, 0, 256}, in; StringDictionaryHASHUFFDAC *d = malloc(sizeof(StringDictionaryHASHUFFDAC)); __CPROVER_assume(d != NULL); d->type = HASHUFFDAC; StringDictionaryHASHUFFDAC__save(d, &out); in = out; in.pos = 0; StringDictionaryHASHUFFDAC *r = (StringDictionaryHASHUFFDAC *)StringDictionaryHASHUFFDAC__load(&in); __CPROVER_assert(r != NULL, "C06: the kind's loader accepts the image its save wrote"); __CPROVER_assert(in.pos == out.pos, "C06: header fields: load consumes what save wrote"); __CPROVER_assert(r->elements == d->elements && r->maxlength == d->maxlength, "C06/C15/C08: every scalar header field survives save/load (numElements, maxLength, ...)"); REACH_POINT(); }
void h_hdr_HASHRPDAC(void) { static uchar buf[256]; struct vstream out = {buf, 0, 256}, in; StringDictionaryHASHRPDAC *d = malloc(sizeof(StringDictionaryHASHRPDAC)); __CPROVER_assume(d != NULL); d->type = HASHRPDAC; uint in_opt; __CPROVER_assume(in_opt >= 1 && in_opt <= 3); StringDictionaryHASHRPDAC__save(d, &out); in = out; in.pos = 0; StringDictionaryHASHRPDAC *r = (StringDictionaryHASHRPDAC *)StringDictionaryHASHRPDAC__load(&in, in_opt); __CPROVER_assert(r != NULL, "C06: the kind's loader accepts the image its save wrote"); __CPROVER_assert(in.pos == out.pos, "C06: header fields: load consumes what save wrote"); __CPROVER_assert(r->elements == d->elements && r->maxlength == d->maxlength, "C06/C15/C08: every scalar header field survives save/load (numElements, maxLength, ...)"); REACH_POINT(); }
void h_hdr_FMINDEX(void) { static uchar buf[256]; struct vstream out = {buf, 0, 256}, in; StringDictionaryFMINDEX *d = malloc(sizeof(StringDictionaryFMINDEX)); __CPROVER_assume(d != NULL); d->type = FMINDEX; d->fm_index = &g_ssa; StringDictionaryFMINDEX__save(d, &out); in = out; in.pos = 0; StringDictionaryFMINDEX *r = (StringDictionaryFMINDEX *)StringDictionaryFMINDEX__load(&in); __CPROVER_assert(r != NULL, "C06: the kind's loader accepts the image its save wrote"); __CPROVER_assert(in.pos == out.pos, "C06: header fields: load consumes what save wrote"); __CPROVER_assert(r->elements == d->elements && r->maxlength == d->maxlength, "C06/C15/C08: every scalar header field survives save/load (numElements, maxLength, ...)"); REACH_POINT(); }

//@ unit logseq
//@ tu utils/LogSequence.cpp
//@ class LogSequence
//@ fn LogSequence::get_field
//@ fn LogSequence::set_field
//@ fn LogSequence::maxVal
//@ fn LogSequence::numElementsFor
//@ fn LogSequence::numBytesFor
//@ fn LogSequence::bits
//@ fn LogSequence::getField
//@   requires(__CPROVER_r_ok(this, sizeof(LogSequence)) && LS_WF(this) && position < this->numentries)
//@   ensures(RET <= LS_MAXVAL(this->numbits))
//@   assigns()
//@ fn LogSequence::setField
//@   requires(__CPROVER_r_ok(this, sizeof(LogSequence)) && LS_WF(this) && position < this->numentries && value <= this->maxval)
//@   assigns(__CPROVER_object_whole(this->array))
//@   ensures(1)
//@ fn LogSequence::ctor sig=unsigned_int__size_t
//@   requires(__CPROVER_w_ok(this, sizeof(*this)) && numbits >= 1 && numbits <= 64 && capacity <= 4096)
//@   ensures(this->numbits == numbits && this->numentries == capacity && this->maxval == LS_MAXVAL(numbits) && this->arraysize == LS_WORDS(numbits, capacity))
//@   ensures(__CPROVER_is_fresh(this->array, this->arraysize * sizeof(size_t)))
//@   ensures(gk < this->arraysize ==> this->array[gk] == 0)
//@   assigns(__CPROVER_object_whole(this))
//@   loop 1: assigns(i, __CPROVER_object_whole(this->array))
//@   loop 1: invariant(i <= this->arraysize && (gk < i ==> this->array[gk] == 0) && this->arraysize == LS_WORDS(numbits, capacity) && __CPROVER_same_object(this->array, __CPROVER_loop_entry(this->array)) && OFFS(this->array) == 0 && OBJSZ(this->array) == this->arraysize * sizeof(size_t))
//@   loop 1: decreases(this->arraysize - i)
//@ ob ls_ctor entry=h_ls_ctor enforce=LogSequence__ctor__unsigned_int__size_t loops tier=P props=C17,C07 kind=statement foreach=WIDTH:1-64 quick=WIDTH:1,7,33,64
//@ ob ls_roundtrip entry=h_rt tier=C props=C17,C01,C07 kind=statement foreach=WIDTH:1-64 quick=WIDTH:1,2,7,8,13,31,32,33,63,64 replay=logseq timeout=600
//@ ob ls_maxval entry=h_maxval tier=C props=C17,C20 kind=statement
//@ ob ls_sizes entry=h_sizes tier=C props=C17,C06 kind=statement foreach=WIDTH:1-64 quick=WIDTH:1,7,8,33,64
//@ ob ls_bits entry=h_bits tier=C props=C17,C20 kind=statement unwind=66
//@ ob ls_getField entry=h_getField enforce=LogSequence__getField tier=C props=C17,C07,C02 kind=statement foreach=WIDTH:1-64 quick=WIDTH:1,7,32,33,64 replay=logseq
//@ ob ls_setField entry=h_setField enforce=LogSequence__setField tier=C props=C17,C07 kind=statement foreach=WIDTH:1-64 quick=WIDTH:1,7,32,33,64 replay=logseq
size_t gk;   /* ghost index */
#define LS_MAXVAL(w) ((w) >= 64 ? ~(size_t)0 : (((size_t)1 << (w)) - 1))
/* class invariant of LogSequence as its constructors establish it: 1 <= numbits <= 64, array holds
 * ceil(numbits*numentries/64) words, maxval = 2^numbits-1 */
#define LS_WORDS(w, n) (((size_t)(w) * (n) + 63) / 64)
#define LS_WF(p) ((p)->numbits >= 1 && (p)->numbits <= 64 && (p)->numentries <= 4096 && \
    (p)->arraysize == LS_WORDS((p)->numbits, (p)->numentries) && (p)->maxval == LS_MAXVAL((p)->numbits) && \
    __CPROVER_rw_ok((p)->array, (p)->arraysize * sizeof(size_t)))
//@ lowered
#ifndef WIDTH
#define WIDTH 8
#endif
#define NW 4
/* LS.rt (loop-free, full domain for one field width): a field returns the value last stored, neighbours and
 * all words other than the one or two that hold the field are untouched */
void h_rt(void) {
  LogSequence ls;  /* the accessors do not read the object */
  size_t in_data[NW]; size_t old[NW];
  size_t in_idx, in_other, in_v, in_word;
  for (int q = 0; q < NW; q++) old[q] = in_data[q];
  __CPROVER_assume((in_idx + 1) * WIDTH <= 64 * NW && in_idx < 64 * NW);
  __CPROVER_assume((in_other + 1) * WIDTH <= 64 * NW && in_other < 64 * NW && in_other != in_idx);
  __CPROVER_assume(in_v <= LS_MAXVAL(WIDTH));
  __CPROVER_assume(in_word < NW);
  size_t before = LogSequence__get_field(&ls, in_data, WIDTH, in_other);
  LogSequence__set_field(&ls, in_data, WIDTH, in_idx, in_v);
  __CPROVER_assert(LogSequence__get_field(&ls, in_data, WIDTH, in_idx) == in_v, "LS.rt: field returns the value last stored");
  __CPROVER_assert(LogSequence__get_field(&ls, in_data, WIDTH, in_other) == before, "LS.rt: other fields undisturbed");
  __CPROVER_assert(in_word == (in_idx * WIDTH) / 64 || in_word == ((in_idx + 1) * WIDTH - 1) / 64 || in_data[in_word] == old[in_word],
                   "LS.frame: words that do not hold the field are unchanged");
  __CPROVER_assert(before <= LS_MAXVAL(WIDTH), "LS.range: a field value fits its width");
  REACH_POINT();
}
void h_maxval(void) {
  LogSequence ls; unsigned in_w;
  __CPROVER_assume(in_w >= 1 && in_w <= 64);
  __CPROVER_assert(LogSequence__maxVal(&ls, in_w) == LS_MAXVAL(in_w), "LS.maxval: maxVal(w) == 2^w-1 for w in 1..64");
  REACH_POINT();
}
void h_sizes(void) {
  LogSequence ls; size_t in_n;
  __CPROVER_assume(in_n <= ((size_t)1 << 56));
  size_t words = LogSequence__numElementsFor(&ls, WIDTH, in_n);
  size_t bytes = LogSequence__numBytesFor(&ls, WIDTH, in_n);
  __CPROVER_assert(words == LS_WORDS(WIDTH, in_n), "LS.sizes: words = ceil(w*n/64)");
  size_t padded = bytes; if ((padded % 8) != 0) padded += 8 - (padded % 8);
  __CPROVER_assert(padded == 8 * words, "LS.sizes: byte count padded to 8 equals the word array size (save/load transfer exactly the words get_field reads)");
  REACH_POINT();
}
void h_bits(void) {
  LogSequence ls; size_t in_x;
  unsigned b = LogSequence__bits(&ls, in_x);
  __CPROVER_assert(b <= 64 && (b == 64 || in_x < ((size_t)1 << b)) && (b == 0 || in_x >= ((size_t)1 << (b - 1))), "LS.bits: bits(x) is the bit length of x");
  REACH_POINT();
}
static LogSequence *mk_ls(size_t n, size_t nwords) {
  LogSequence *p = malloc(sizeof(LogSequence));
  __CPROVER_assume(p != NULL);
  p->numbits = WIDTH; p->numentries = n; p->arraysize = nwords; p->maxval = LS_MAXVAL(WIDTH);
  p->array = malloc(nwords * sizeof(size_t));
  __CPROVER_assume(p->array != NULL);
  return p;
}
void h_getField(void) {
  size_t in_n, in_nwords, in_pos;
  __CPROVER_assume(in_n <= 4096 && in_nwords <= 4096);
  LogSequence *ls = mk_ls(in_n, in_nwords);
  LogSequence__getField(ls, in_pos);
  REACH_POINT();
}
void h_setField(void) {
  size_t in_n, in_nwords, in_pos, in_val;
  __CPROVER_assume(in_n <= 4096 && in_nwords <= 4096);
  LogSequence *ls = mk_ls(in_n, in_nwords);
  LogSequence__setField(ls, in_pos, in_val);
  REACH_POINT();
}
void h_ls_ctor(void) {
  LogSequence *ls = malloc(sizeof(LogSequence)); __CPROVER_assume(ls != NULL);
  size_t in_cap; __CPROVER_assume(gk < 4096);
  LogSequence__ctor__unsigned_int__size_t(ls, WIDTH, in_cap);
  REACH_POINT();
}

//@ unit dac
//@ tu utils/DAC_VLS.cpp
//@ class BitSequence
//@ class BitSequenceRG
//@ class DAC_VLS
//@ global W WW
//@ fn get_field
//@ fn set_field
//@ fn bitset
//@ fn DAC_VLS::ctor sig=int_p__uint__uint__uint
//@ fn DAC_VLS::ctor sig=0
//@ fn DAC_VLS::access
//@ fn DAC_VLS::access_next
//@ fn DAC_VLS::getListLength
//@ fn DAC_VLS::save
//@ fn DAC_VLS::load
//@ ob dac_fields entry=h_fields tier=C props=C17,C19 kind=statement foreach=FW:1-32 quick=FW:1,7,8,9,31,32
//@ ob dac_ctor_access entry=h_dac tier=B props=C17,C01 kind=statement grid=dac defs=-DNEW_ARRAY_CAP=8 timeout=1200 replay=dac
//@ ob dac_saveload entry=h_dac_sl tier=B props=C17,C06,C08 kind=statement grid=dac gridonly=s21r8+s312r9+s1r1 defs=-DNEW_ARRAY_CAP=8 timeout=1200 replay=dac
#define VSTREAM_LOOP_COPY
#include "vstream.h"
//@ structs
/* TRUSTED: BitSequenceRG is replaced by its specification here: the constructor keeps a copy of the first n bits, rank1 is the plain count of ones in [0,i]. The real BitSequenceRG is checked against the same plain definition in unit rg (bounded). save/load of the bitmap are checked there too; here they transfer the object pointer. */
BitSequenceRG *BitSequenceRG__ctor__uint_p__size_t__uint(BitSequenceRG *this, uint *bitarray, size_t n, uint factor);
size_t BitSequence__rank1(BitSequence *this, size_t i);
void BitSequence__save(BitSequence *this, struct vstream *fp);
BitSequence *BitSequence__load(struct vstream *fp);
//@ lowered
#define MAXBITS 64
static uint g_bits[MAXBITS / 32 + 1];
BitSequenceRG *BitSequenceRG__ctor__uint_p__size_t__uint(BitSequenceRG *this, uint *bitarray, size_t n, uint factor) {
  __CPROVER_assert(n <= MAXBITS, "harness bound: bitmap of the DAC has at most 64 bits");
  for (size_t k = 0; k < MAXBITS / 32 + 1; k++) g_bits[k] = (k < n / 32 + 1) ? bitarray[k] : 0;
  this->data = g_bits; this->n = n; ((BitSequence *)this)->length = n; return this;
}
size_t BitSequence__rank1(BitSequence *this, size_t i) {
  BitSequenceRG *r = (BitSequenceRG *)this; size_t c = 0;
  __CPROVER_assert(i < r->n, "rank1 argument inside the bitmap");
  for (size_t k = 0; k < MAXBITS; k++) if (k <= i && ((r->data[k / 32] >> (k % 32)) & 1)) c++;
  return c;
}
static BitSequence *g_saved_bs;
void BitSequence__save(BitSequence *this, struct vstream *fp) { g_saved_bs = this; }
BitSequence *BitSequence__load(struct vstream *fp) { return g_saved_bs; }
#ifndef FW
#define FW 8
#endif
/* libcds get_field/set_field (32-bit words): round trip, neighbours, for one width and symbolic positions */
void h_fields(void) {
  uint in_a[4]; size_t in_idx, in_other; uint in_v;
  __CPROVER_assume(in_idx < 128 && in_other < 128 && (in_idx + 1) * FW <= 128 && (in_other + 1) * FW <= 128 && in_idx != in_other);
  __CPROVER_assume(FW == 32 || in_v < (1u << FW));
  uint before = get_field(in_a, FW, in_other);
  set_field(in_a, FW, in_idx, in_v);
  __CPROVER_assert(get_field(in_a, FW, in_idx) == in_v, "libcds set_field/get_field: field returns the value last stored");
  __CPROVER_assert(get_field(in_a, FW, in_other) == before, "libcds set_field: other fields undisturbed");
  REACH_POINT();
}
/* shape of the stored list: NSEQ sequences with concrete lengths L0,L1,L2 (each >= 1), symbols symbolic below 2^LOGR */
#ifndef L0
#define L0 2
#endif
#ifndef L1
#define L1 1
#endif
#ifndef L2
#define L2 0
#endif
#ifndef LOGR
#define LOGR 8
#endif
#define NSEQ (1 + (L1 > 0) + (L2 > 0))
#define MAXL ((L0 > L1 ? (L0 > L2 ? L0 : L2) : (L1 > L2 ? L1 : L2)))
#define LISTLEN (L0 + L1 + L2 + NSEQ)
static const uint seqlen[3] = {L0, L1, L2};
static void mk_list(int *list, uint in_sym[3][MAXL]) {
  uint p = 0;
  for (int s = 0; s < NSEQ; s++) {
    for (uint k = 0; k < seqlen[s]; k++) { uint v; __CPROVER_assume(LOGR >= 31 || v < (1u << LOGR)); __CPROVER_assume(v <= 0x7fffffff); in_sym[s][k] = v; list[p++] = (int)v; }
    list[p++] = -1;
  }
}
/* C17: the DAC returns for every index exactly the symbol sequence stored (built by the real constructor) */
void h_dac(void) {
  int in_list[LISTLEN]; uint in_sym[3][MAXL];
  mk_list(in_list, in_sym);
  DAC_VLS d;
  DAC_VLS__ctor__int_p__uint__uint__uint(&d, in_list, LISTLEN, LOGR, MAXL);
  __CPROVER_assert(DAC_VLS__getListLength(&d) == NSEQ, "C17: list length == number of sequences");
  uint in_s; __CPROVER_assume(in_s < NSEQ);
  uint *out; uint l = DAC_VLS__access(&d, in_s + 1, &out);
  __CPROVER_assert(l == seqlen[in_s], "C17: access returns the stored sequence length");
  uint in_k; __CPROVER_assume(in_k < seqlen[in_s]);
  __CPROVER_assert(out[in_k] == in_sym[in_s][in_k], "C17: access returns the stored symbols");
  /* symbol-by-symbol traversal */
  uint pos = in_s + 1; uint lev = 0;
  for (uint k = 0; k < MAXL; k++) {
    if (k < seqlen[in_s]) {
      __CPROVER_assert(pos != (uint)-1, "C17: access_next continues while symbols remain");
      uint v = DAC_VLS__access_next(&d, lev, &pos);
      __CPROVER_assert(v == in_sym[in_s][k], "C17: access_next returns the stored symbols in order");
      lev++;
    }
  }
  __CPROVER_assert(pos == (uint)-1, "C17: access_next signals the end of the sequence");
  REACH_POINT();
}
/* C17/C06: DAC save -> load */
void h_dac_sl(void) {
  int in_list[LISTLEN]; uint in_sym[3][MAXL];
  mk_list(in_list, in_sym);
  DAC_VLS d;
  DAC_VLS__ctor__int_p__uint__uint__uint(&d, in_list, LISTLEN, LOGR, MAXL);
  static uchar buf[256]; struct vstream out = {buf, 0, 256}, in;
  DAC_VLS__save(&d, &out);
  in = out; in.pos = 0;
  DAC_VLS *e = DAC_VLS__load(&in);
  __CPROVER_assert(in.pos == out.pos, "C06: load consumes exactly the bytes save wrote");
  __CPROVER_assert(e->tamCode == d.tamCode && e->listLength == d.listLength && e->nLevels == d.nLevels && e->base_bits == d.base_bits && e->bS == d.bS, "C06/C17: DAC fields equal after reload");
  uint a; __CPROVER_assume(a <= d.nLevels); __CPROVER_assert(e->levelsIndex[a] == d.levelsIndex[a], "C06: levelsIndex equal after reload");
  uint b; __CPROVER_assume(b < d.tamCode / 32 + 1); __CPROVER_assert(e->levels[b] == d.levels[b], "C06: packed levels equal after reload");
  uint c; __CPROVER_assume(c < d.nLevels); __CPROVER_assert(e->rankLevels[c] == d.rankLevels[c], "C06: rankLevels equal after reload");
  REACH_POINT();
}

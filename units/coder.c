//@ unit coder
//@ autostub havoc
//@ tu utils/Coder/DecodingTable.cpp
//@ class Codeword tu=utils/Coder/StatCoder.cpp
//@ class StatCoder tu=utils/Coder/StatCoder.cpp
//@ class Entry
//@ class DecodingTable
//@ global W
//@ fn StatCoder::encodeSymbol tu=utils/Coder/StatCoder.cpp
//@ fn DecodingTable::encodeInfo
//@ fn DecodingTable::decodeInfo
//@ fn DecodingTable::load
//@ fn DecodingTable::ctor sig=0
//@ ob coder_info entry=h_info tier=C props=C18 kind=statement
//@ ob coder_encodeSymbol entry=h_encsym tier=C props=C18,C07 kind=statement unwind=6 foreach=OFF:0-7
//@ ob coder_load_ventry entry=h_load_ventry tier=C props=C18,C06 kind=statement unwind=258
#define VSTREAM_HAVOC_ARRAY_LOAD
#include "vstream.h"
typedef struct DecodingTree DecodingTree;
//@ structs
/* TRUSTED: pow(2,k) and the component loaders are outside the obligation about the info-byte table (havoc stubs) */
double pow(double a, double b) { double r_; return r_; }
//@ lowered
/* C18: the info byte packs (length 0..15, bits 1..16) and unpacks to the same pair */
void h_info(void) {
  DecodingTable t; uint in_len, in_bits; __CPROVER_assume(in_len <= 15 && in_bits >= 1 && in_bits <= 16);
  uchar code = DecodingTable__encodeInfo(&t, in_len, in_bits);
  uint l, b; DecodingTable__decodeInfo(&t, code, &l, &b);
  __CPROVER_assert(l == in_len && b == in_bits, "C18: decodeInfo(encodeInfo(length, bits)) == (length, bits)");
  REACH_POINT();
}
#ifndef OFF
#define OFF 0
#endif
/* C18: encodeSymbol appends the code word MSB-first at bit offset OFF and keeps what was already written */
void h_encsym(void) {
  Codeword cw[256]; StatCoder sc; sc.codewords = cw;
  uchar in_sym; uint in_code, in_bits; __CPROVER_assume(in_bits >= 1 && in_bits <= 32 && (in_bits == 32 || in_code < (1u << in_bits)));
  cw[in_sym].codeword = in_code; cw[in_sym].bits = in_bits;
  uchar text[6]; uchar in_first; __CPROVER_assume((in_first & (0xFF >> OFF)) == 0);   /* bits below the write position are still zero */
  text[0] = in_first; uchar junk1, junk2, junk3, junk4, junk5; text[1] = junk1; text[2] = junk2; text[3] = junk3; text[4] = junk4; text[5] = junk5;
  uint off = OFF;
  uint bytes = StatCoder__encodeSymbol(&sc, in_sym, text, &off);
  __CPROVER_assert(bytes == (OFF + in_bits) / 8 && off == (OFF + in_bits) % 8, "C18: bytes advanced and new bit offset");
  uint in_t; __CPROVER_assume(in_t < in_bits);
  uint pos = OFF + in_t;
  uint got = (text[pos / 8] >> (7 - pos % 8)) & 1, want = (in_code >> (in_bits - 1 - in_t)) & 1;
  __CPROVER_assert(got == want, "C18: bit t of the output (MSB first) is bit t of the code word");
  __CPROVER_assert((text[0] & ~(0xFF >> OFF) & 0xFF) == (in_first & ~(0xFF >> OFF) & 0xFF), "C18: bits already written are preserved");
  uint endpos = OFF + in_bits;
  __CPROVER_assert(endpos % 8 == 0 ? text[endpos / 8] == 0 : (text[endpos / 8] & (0xFF >> (endpos % 8))) == 0, "C18: the bits after the code word are zero (ready for the next symbol)");
  REACH_POINT();
}
/* C18/C06: after load, the info-byte table has an entry for every one of the 256 codes */
void h_load_ventry(void) {
  uchar buf[64]; struct vstream in; in.buf = buf; in.pos = 0; in.cap = 64;
  uchar in_nodes; __CPROVER_assume(in_nodes <= 1);
  buf[12] = in_nodes; buf[13] = 0; buf[14] = 0; buf[15] = 0;   /* k (4 bytes), bytesStream (8 bytes), nodes (4 bytes) */
  DecodingTable *t = DecodingTable__load(&in);
  uint in_i; __CPROVER_assume(in_i < 256);
  uint l, b; DecodingTable__decodeInfo(t, (uchar)in_i, &l, &b);
  __CPROVER_assert(t->ventry[in_i].length == l && t->ventry[in_i].bits == b, "C18: ventry[i] == decodeInfo(i) for every code 0..255");
  REACH_POINT();
}

//@ unit chunk2
//@ autostub
//@ tu utils/Coder/DecodingTable.cpp
//@ class ChunkScan
//@ class Entry
//@ class TreeNode
//@ class DecodingTree
//@ class DecodingTable
//@ fn mask
//@ fn DecodingTable::getSubstring
//@ ob chunk_shortcode_end entry=h_short tier=C props=C18,C07 kind=statement unwind=26
typedef struct BitString BitString;
#include "vec.h"
DEFINE_VEC(uint, vec_uint)
//@ structs
bool BitString__getBit(BitString *this, size_t i);
//@ lowered
/* C18: the short-code path of the chunk decoder (a table entry of 1..15 decoded symbols), for every 4-bit chunk table:
 * all symbols of the entry are appended and counted, the entry looked up is the one selected by the next k bits, and the
 * end of the string is reported exactly when the entry is flagged as holding an end of string -- except while at most two
 * symbols of the string have been extracted (the VByte length bytes of a front-coded entry, which may be zero bytes).
 * The long-code path is proved unreachable here (stub VByte__decode) and is the subject of unit chunk. */
static size_t g_bit_idx; static int g_bit_asked; static bool g_bit_val;
bool BitString__getBit(BitString *this, size_t i) { g_bit_idx = i; g_bit_asked++; return g_bit_val; }
#define K 4
void h_short(void) {
  DecodingTable *t = malloc(sizeof(DecodingTable)); __CPROVER_assume(t != NULL);
  uint table[1 << K]; uchar stream[24]; uchar out[64]; char dummy;
  for (int i = 0; i < (1 << K); i++) __CPROVER_assume(table[i] < 8);
  stream[23] = 0;
  t->k = K; t->table = table; t->stream = stream; t->endings = (BitString *)&dummy;
  ChunkScan c; c.str = out; bool in_end; g_bit_val = in_end;
  uint in_chunk, in_s0, in_e0, in_adv; ushort in_valid;
  __CPROVER_assume(in_valid >= K && in_valid <= 32 && in_s0 <= 16 && in_e0 <= 1000);
  c.c_chunk = in_chunk; c.c_valid = in_valid; c.strLen = in_s0; c.extracted = in_e0; c.advanced = in_adv;
  uint index = (in_chunk >> (in_valid - K)) & ((1u << K) - 1);
  Entry x = t->ventry[stream[table[index]]];
  __CPROVER_assume(x.length != 0 && x.length <= 15 && x.bits <= K);   /* class invariant (unit coder): 4-bit fields; an entry consumes at most k bits */
  uint in_j; __CPROVER_assume(in_j < x.length);
  bool r = DecodingTable__getSubstring(t, &c);
  __CPROVER_assert(c.extracted == in_e0 + x.length, "C18: every decoded symbol of the entry is counted");
  __CPROVER_assert(out[in_s0 + in_j] == stream[table[index] + 1 + in_j], "C18: the symbols of the selected entry are appended to the string");
  __CPROVER_assert(c.c_valid == in_valid - x.bits, "C18: exactly the bits of the entry are consumed");
  __CPROVER_assert(!g_bit_asked || (g_bit_asked == 1 && g_bit_idx == index), "C18: the end-of-string flag consulted is the one of the selected entry");
  __CPROVER_assert(r == (in_e0 + x.length > 2 && in_end), "C18: a flagged entry ends the string unless at most two symbols (the length bytes) have been extracted");
  if (!r) __CPROVER_assert(c.strLen == in_s0 + x.length, "C18: otherwise the string grows by the whole entry");
  REACH_POINT();
}

//@ unit saves
//@ autostub streamframe
//@ class RePair tu=RePair/RePair.cpp
//@ class DAC_VLS tu=utils/DAC_VLS.cpp
//@ class Hash tu=Hash/Hash.cpp
//@ class HashDAC tu=Hash/HashDAC.cpp
//@ class BitSequenceRG tu=libcds/src/bitsequence/BitSequenceRG.cpp
//@ class Entry tu=utils/Coder/DecodingTable.cpp
//@ class DecodingTable tu=utils/Coder/DecodingTable.cpp
//@ class DecodingTree tu=utils/Coder/DecodingTree.cpp
//@ class StringDictionary tu=StringDictionaryRPFC.cpp
//@ class BitSequence tu=libcds/src/bitsequence/BitSequenceRG.cpp
//@ class StringDictionaryRPFC tu=StringDictionaryRPFC.cpp
//@ class StringDictionaryHTFC tu=StringDictionaryHTFC.cpp
//@ class StringDictionaryHHTFC tu=StringDictionaryHHTFC.cpp
//@ class StringDictionaryRPHTFC tu=StringDictionaryRPHTFC.cpp
//@ class StringDictionaryRPDAC tu=StringDictionaryRPDAC.cpp
//@ class StringDictionaryHASHHF tu=StringDictionaryHASHHF.cpp
//@ class StringDictionaryHASHRPF tu=StringDictionaryHASHRPF.cpp
//@ class StringDictionaryHASHUFFDAC tu=StringDictionaryHASHUFFDAC.cpp
//@ class StringDictionaryHASHRPDAC tu=StringDictionaryHASHRPDAC.cpp
//@ class StringDictionaryFMINDEX tu=StringDictionaryFMINDEX.cpp
//@ class StringDictionaryXBW tu=StringDictionaryXBW.cpp
//@ fn RePair::save tu=RePair/RePair.cpp sig=vstream_p__uint
//@   requires(__CPROVER_rw_ok(out, sizeof(struct vstream)))
//@   ensures(1)
//@   assigns(out->pos, __CPROVER_object_whole(out->buf))
//@ fn RePair::save tu=RePair/RePair.cpp sig=vstream_p
//@   requires(__CPROVER_rw_ok(out, sizeof(struct vstream)))
//@   ensures(1)
//@   assigns(out->pos, __CPROVER_object_whole(out->buf))
//@ fn DAC_VLS::save tu=utils/DAC_VLS.cpp
//@   requires(__CPROVER_rw_ok(fp, sizeof(struct vstream)))
//@   ensures(1)
//@   assigns(fp->pos, __CPROVER_object_whole(fp->buf))
//@ fn Hash::save tu=Hash/Hash.cpp
//@   requires(__CPROVER_rw_ok(fp, sizeof(struct vstream)))
//@   ensures(1)
//@   assigns(fp->pos, __CPROVER_object_whole(fp->buf))
//@ fn HashDAC::save tu=Hash/HashDAC.cpp
//@   requires(__CPROVER_rw_ok(fp, sizeof(struct vstream)))
//@   ensures(1)
//@   assigns(fp->pos, __CPROVER_object_whole(fp->buf))
//@ fn BitSequenceRG::save tu=libcds/src/bitsequence/BitSequenceRG.cpp
//@   requires(__CPROVER_rw_ok(f, sizeof(struct vstream)))
//@   ensures(1)
//@   assigns(f->pos, __CPROVER_object_whole(f->buf))
//@ fn DecodingTable::save tu=utils/Coder/DecodingTable.cpp
//@   requires(__CPROVER_rw_ok(out, sizeof(struct vstream)))
//@   ensures(1)
//@   assigns(out->pos, __CPROVER_object_whole(out->buf))
//@   loop 1: assigns(i, out->pos, __CPROVER_object_whole(out->buf))
//@   loop 1: invariant(1)
//@ fn DecodingTree::save tu=utils/Coder/DecodingTree.cpp
//@   requires(__CPROVER_rw_ok(out, sizeof(struct vstream)))
//@   ensures(1)
//@   assigns(out->pos, __CPROVER_object_whole(out->buf))
//@   loop 1: assigns(i, out->pos, __CPROVER_object_whole(out->buf))
//@   loop 1: invariant(1)
//@ fn StringDictionaryRPFC::save tu=StringDictionaryRPFC.cpp
//@   requires(__CPROVER_rw_ok(out, sizeof(struct vstream)))
//@   ensures(1)
//@   assigns(out->pos, __CPROVER_object_whole(out->buf))
//@ fn StringDictionaryHTFC::save tu=StringDictionaryHTFC.cpp
//@   requires(__CPROVER_rw_ok(out, sizeof(struct vstream)))
//@   ensures(1)
//@   assigns(out->pos, __CPROVER_object_whole(out->buf))
//@ fn StringDictionaryHHTFC::save tu=StringDictionaryHHTFC.cpp
//@   requires(__CPROVER_rw_ok(out, sizeof(struct vstream)))
//@   ensures(1)
//@   assigns(out->pos, __CPROVER_object_whole(out->buf))
//@ fn StringDictionaryRPHTFC::save tu=StringDictionaryRPHTFC.cpp
//@   requires(__CPROVER_rw_ok(out, sizeof(struct vstream)))
//@   ensures(1)
//@   assigns(out->pos, __CPROVER_object_whole(out->buf))
//@ fn StringDictionaryRPDAC::save tu=StringDictionaryRPDAC.cpp
//@   requires(__CPROVER_rw_ok(out, sizeof(struct vstream)))
//@   ensures(1)
//@   assigns(out->pos, __CPROVER_object_whole(out->buf))
//@ fn StringDictionaryHASHHF::save tu=StringDictionaryHASHHF.cpp
//@   requires(__CPROVER_rw_ok(out, sizeof(struct vstream)))
//@   ensures(1)
//@   assigns(out->pos, __CPROVER_object_whole(out->buf))
//@ fn StringDictionaryHASHRPF::save tu=StringDictionaryHASHRPF.cpp
//@   requires(__CPROVER_rw_ok(out, sizeof(struct vstream)))
//@   ensures(1)
//@   assigns(out->pos, __CPROVER_object_whole(out->buf))
//@ fn StringDictionaryHASHUFFDAC::save tu=StringDictionaryHASHUFFDAC.cpp
//@   requires(__CPROVER_rw_ok(out, sizeof(struct vstream)))
//@   ensures(1)
//@   assigns(out->pos, __CPROVER_object_whole(out->buf))
//@ fn StringDictionaryHASHRPDAC::save tu=StringDictionaryHASHRPDAC.cpp
//@   requires(__CPROVER_rw_ok(out, sizeof(struct vstream)))
//@   ensures(1)
//@   assigns(out->pos, __CPROVER_object_whole(out->buf))
//@ fn StringDictionaryFMINDEX::save tu=StringDictionaryFMINDEX.cpp
//@   requires(__CPROVER_rw_ok(out, sizeof(struct vstream)))
//@   ensures(1)
//@   assigns(out->pos, __CPROVER_object_whole(out->buf))
//@ fn StringDictionaryXBW::save tu=StringDictionaryXBW.cpp
//@   requires(__CPROVER_rw_ok(out, sizeof(struct vstream)))
//@   ensures(1)
//@   assigns(out->pos, __CPROVER_object_whole(out->buf))
//@ ob saveframe_RePair_vstream_p__uint entry=h_sf_RePair_vstream_p__uint enforce=RePair__save__vstream_p__uint autoreplace replace=vstream__write unwind=3 tier=C props=C08,C14 kind=statement timeout=600 nochecks=div-by-zero-check,bounds-check,pointer-check,pointer-overflow-check,pointer-primitive-check,undefined-shift-check defs=-DVEC_NO_INDEX_ASSERT
//@ ob saveframe_RePair_vstream_p entry=h_sf_RePair_vstream_p enforce=RePair__save__vstream_p autoreplace replace=vstream__write unwind=3 tier=C props=C08,C14 kind=statement timeout=600 nochecks=div-by-zero-check,bounds-check,pointer-check,pointer-overflow-check,pointer-primitive-check,undefined-shift-check defs=-DVEC_NO_INDEX_ASSERT
//@ ob saveframe_DAC_VLS entry=h_sf_DAC_VLS enforce=DAC_VLS__save autoreplace replace=vstream__write unwind=3 tier=C props=C08,C14 kind=statement timeout=600 nochecks=div-by-zero-check,bounds-check,pointer-check,pointer-overflow-check,pointer-primitive-check,undefined-shift-check defs=-DVEC_NO_INDEX_ASSERT
//@ ob saveframe_Hash entry=h_sf_Hash enforce=Hash__save autoreplace replace=vstream__write unwind=3 tier=C props=C08,C14 kind=statement timeout=600 nochecks=div-by-zero-check,bounds-check,pointer-check,pointer-overflow-check,pointer-primitive-check,undefined-shift-check defs=-DVEC_NO_INDEX_ASSERT
//@ ob saveframe_HashDAC entry=h_sf_HashDAC enforce=HashDAC__save autoreplace replace=vstream__write unwind=3 tier=C props=C08,C14 kind=statement timeout=600 nochecks=div-by-zero-check,bounds-check,pointer-check,pointer-overflow-check,pointer-primitive-check,undefined-shift-check defs=-DVEC_NO_INDEX_ASSERT
//@ ob saveframe_BitSequenceRG entry=h_sf_BitSequenceRG enforce=BitSequenceRG__save autoreplace replace=vstream__write unwind=3 tier=C props=C08,C14 kind=statement timeout=600 nochecks=div-by-zero-check,bounds-check,pointer-check,pointer-overflow-check,pointer-primitive-check,undefined-shift-check defs=-DVEC_NO_INDEX_ASSERT
//@ ob saveframe_DecodingTable entry=h_sf_DecodingTable enforce=DecodingTable__save autoreplace loops replace=vstream__write,pow tier=C props=C08,C14 kind=statement timeout=600 nochecks=div-by-zero-check,bounds-check,pointer-check,pointer-overflow-check,pointer-primitive-check,undefined-shift-check defs=-DVEC_NO_INDEX_ASSERT
//@ ob saveframe_DecodingTree entry=h_sf_DecodingTree enforce=DecodingTree__save autoreplace loops replace=vstream__write tier=C props=C08,C14 kind=statement timeout=600 nochecks=div-by-zero-check,bounds-check,pointer-check,pointer-overflow-check,pointer-primitive-check,undefined-shift-check defs=-DVEC_NO_INDEX_ASSERT
//@ ob saveframe_RPFC entry=h_sf_RPFC enforce=StringDictionaryRPFC__save autoreplace replace=vstream__write unwind=3 tier=C props=C08,C14 kind=statement timeout=600 nochecks=div-by-zero-check,bounds-check,pointer-check,pointer-overflow-check,pointer-primitive-check,undefined-shift-check defs=-DVEC_NO_INDEX_ASSERT
//@ ob saveframe_HTFC entry=h_sf_HTFC enforce=StringDictionaryHTFC__save autoreplace replace=vstream__write unwind=3 tier=C props=C08,C14 kind=statement timeout=600 nochecks=div-by-zero-check,bounds-check,pointer-check,pointer-overflow-check,pointer-primitive-check,undefined-shift-check defs=-DVEC_NO_INDEX_ASSERT
//@ ob saveframe_HHTFC entry=h_sf_HHTFC enforce=StringDictionaryHHTFC__save autoreplace replace=vstream__write unwind=3 tier=C props=C08,C14 kind=statement timeout=600 nochecks=div-by-zero-check,bounds-check,pointer-check,pointer-overflow-check,pointer-primitive-check,undefined-shift-check defs=-DVEC_NO_INDEX_ASSERT
//@ ob saveframe_RPHTFC entry=h_sf_RPHTFC enforce=StringDictionaryRPHTFC__save autoreplace replace=vstream__write unwind=3 tier=C props=C08,C14 kind=statement timeout=600 nochecks=div-by-zero-check,bounds-check,pointer-check,pointer-overflow-check,pointer-primitive-check,undefined-shift-check defs=-DVEC_NO_INDEX_ASSERT
//@ ob saveframe_RPDAC entry=h_sf_RPDAC enforce=StringDictionaryRPDAC__save autoreplace replace=vstream__write unwind=3 tier=C props=C08,C14 kind=statement timeout=600 nochecks=div-by-zero-check,bounds-check,pointer-check,pointer-overflow-check,pointer-primitive-check,undefined-shift-check defs=-DVEC_NO_INDEX_ASSERT
//@ ob saveframe_HASHHF entry=h_sf_HASHHF enforce=StringDictionaryHASHHF__save autoreplace replace=vstream__write unwind=3 tier=C props=C08,C14 kind=statement timeout=600 nochecks=div-by-zero-check,bounds-check,pointer-check,pointer-overflow-check,pointer-primitive-check,undefined-shift-check defs=-DVEC_NO_INDEX_ASSERT
//@ ob saveframe_HASHRPF entry=h_sf_HASHRPF enforce=StringDictionaryHASHRPF__save autoreplace replace=vstream__write unwind=3 tier=C props=C08,C14 kind=statement timeout=600 nochecks=div-by-zero-check,bounds-check,pointer-check,pointer-overflow-check,pointer-primitive-check,undefined-shift-check defs=-DVEC_NO_INDEX_ASSERT
//@ ob saveframe_HASHUFFDAC entry=h_sf_HASHUFFDAC enforce=StringDictionaryHASHUFFDAC__save autoreplace replace=vstream__write unwind=3 tier=C props=C08,C14 kind=statement timeout=600 nochecks=div-by-zero-check,bounds-check,pointer-check,pointer-overflow-check,pointer-primitive-check,undefined-shift-check defs=-DVEC_NO_INDEX_ASSERT
//@ ob saveframe_HASHRPDAC entry=h_sf_HASHRPDAC enforce=StringDictionaryHASHRPDAC__save autoreplace replace=vstream__write unwind=3 tier=C props=C08,C14 kind=statement timeout=600 nochecks=div-by-zero-check,bounds-check,pointer-check,pointer-overflow-check,pointer-primitive-check,undefined-shift-check defs=-DVEC_NO_INDEX_ASSERT
//@ ob saveframe_FMINDEX entry=h_sf_FMINDEX enforce=StringDictionaryFMINDEX__save autoreplace replace=vstream__write unwind=3 tier=C props=C08,C14 kind=statement timeout=600 nochecks=div-by-zero-check,bounds-check,pointer-check,pointer-overflow-check,pointer-primitive-check,undefined-shift-check defs=-DVEC_NO_INDEX_ASSERT
//@ ob saveframe_XBW entry=h_sf_XBW enforce=StringDictionaryXBW__save autoreplace replace=vstream__write unwind=3 tier=C props=C08,C14 kind=statement timeout=600 nochecks=div-by-zero-check,bounds-check,pointer-check,pointer-overflow-check,pointer-primitive-check,undefined-shift-check defs=-DVEC_NO_INDEX_ASSERT
#define VSTREAM_WRITE_CONTRACT
#define VSTREAM_WRITE_FRAMEONLY
#include "vstream.h"
#include "vec.h"
DEFINE_VEC(uint, vec_uint)
typedef struct Codeword Codeword;
static inline void saveValue__Codeword__3(struct vstream *out, const Codeword *val, const size_t len) { vstream__write(out, (const char *)val, len * 8); }
double pow(double a, double b) __CPROVER_requires(1) __CPROVER_ensures(1) __CPROVER_assigns();
//@ structs
//@ lowered
/* ASSUMES: these obligations check the *frame* of save only (what is written or freed); CBMC's read-side memory checks are off here because the harness does not build the object graph (read safety of save is checked on constructor-built objects in pfc_sl, rg, dac, bvls) */
/* C08: save writes nothing but the stream -- in particular it frees nothing the object owns (dfcc frame check on the real body; component saves are contracts with the same frame, each proved by its own obligation here or in pfc_sl/bvls) */
void h_sf_RePair_vstream_p__uint(void) { RePair *d = malloc(sizeof(RePair)); __CPROVER_assume(d != NULL); struct vstream *o = malloc(sizeof(struct vstream)); __CPROVER_assume(o != NULL); o->buf = malloc(64); __CPROVER_assume(o->buf != NULL); o->cap = 64; uint in_enc; RePair__save__vstream_p__uint(d, o, in_enc); REACH_POINT(); }
void h_sf_RePair_vstream_p(void) { RePair *d = malloc(sizeof(RePair)); __CPROVER_assume(d != NULL); struct vstream *o = malloc(sizeof(struct vstream)); __CPROVER_assume(o != NULL); o->buf = malloc(64); __CPROVER_assume(o->buf != NULL); o->cap = 64; RePair__save__vstream_p(d, o); REACH_POINT(); }
void h_sf_DAC_VLS(void) { DAC_VLS *d = malloc(sizeof(DAC_VLS)); __CPROVER_assume(d != NULL); struct vstream *o = malloc(sizeof(struct vstream)); __CPROVER_assume(o != NULL); o->buf = malloc(64); __CPROVER_assume(o->buf != NULL); o->cap = 64; DAC_VLS__save(d, o); REACH_POINT(); }
void h_sf_Hash(void) { Hash *d = malloc(sizeof(Hash)); __CPROVER_assume(d != NULL); struct vstream *o = malloc(sizeof(struct vstream)); __CPROVER_assume(o != NULL); o->buf = malloc(64); __CPROVER_assume(o->buf != NULL); o->cap = 64; Hash__save(d, o); REACH_POINT(); }
void h_sf_HashDAC(void) { HashDAC *d = malloc(sizeof(HashDAC)); __CPROVER_assume(d != NULL); struct vstream *o = malloc(sizeof(struct vstream)); __CPROVER_assume(o != NULL); o->buf = malloc(64); __CPROVER_assume(o->buf != NULL); o->cap = 64; HashDAC__save(d, o); REACH_POINT(); }
void h_sf_BitSequenceRG(void) { BitSequenceRG *d = malloc(sizeof(BitSequenceRG)); __CPROVER_assume(d != NULL); struct vstream *o = malloc(sizeof(struct vstream)); __CPROVER_assume(o != NULL); o->buf = malloc(64); __CPROVER_assume(o->buf != NULL); o->cap = 64; BitSequenceRG__save(d, o); REACH_POINT(); }
void h_sf_DecodingTable(void) { DecodingTable *d = malloc(sizeof(DecodingTable)); __CPROVER_assume(d != NULL); struct vstream *o = malloc(sizeof(struct vstream)); __CPROVER_assume(o != NULL); o->buf = malloc(64); __CPROVER_assume(o->buf != NULL); o->cap = 64; DecodingTable__save(d, o); REACH_POINT(); }
void h_sf_DecodingTree(void) { DecodingTree *d = malloc(sizeof(DecodingTree)); __CPROVER_assume(d != NULL); struct vstream *o = malloc(sizeof(struct vstream)); __CPROVER_assume(o != NULL); o->buf = malloc(64); __CPROVER_assume(o->buf != NULL); o->cap = 64; DecodingTree__save(d, o); REACH_POINT(); }
void h_sf_RPFC(void) { StringDictionaryRPFC *d = malloc(sizeof(StringDictionaryRPFC)); __CPROVER_assume(d != NULL); struct vstream *o = malloc(sizeof(struct vstream)); __CPROVER_assume(o != NULL); o->buf = malloc(64); __CPROVER_assume(o->buf != NULL); o->cap = 64; StringDictionaryRPFC__save(d, o); REACH_POINT(); }
void h_sf_HTFC(void) { StringDictionaryHTFC *d = malloc(sizeof(StringDictionaryHTFC)); __CPROVER_assume(d != NULL); struct vstream *o = malloc(sizeof(struct vstream)); __CPROVER_assume(o != NULL); o->buf = malloc(64); __CPROVER_assume(o->buf != NULL); o->cap = 64; StringDictionaryHTFC__save(d, o); REACH_POINT(); }
void h_sf_HHTFC(void) { StringDictionaryHHTFC *d = malloc(sizeof(StringDictionaryHHTFC)); __CPROVER_assume(d != NULL); struct vstream *o = malloc(sizeof(struct vstream)); __CPROVER_assume(o != NULL); o->buf = malloc(64); __CPROVER_assume(o->buf != NULL); o->cap = 64; StringDictionaryHHTFC__save(d, o); REACH_POINT(); }
void h_sf_RPHTFC(void) { StringDictionaryRPHTFC *d = malloc(sizeof(StringDictionaryRPHTFC)); __CPROVER_assume(d != NULL); struct vstream *o = malloc(sizeof(struct vstream)); __CPROVER_assume(o != NULL); o->buf = malloc(64); __CPROVER_assume(o->buf != NULL); o->cap = 64; StringDictionaryRPHTFC__save(d, o); REACH_POINT(); }
void h_sf_RPDAC(void) { StringDictionaryRPDAC *d = malloc(sizeof(StringDictionaryRPDAC)); __CPROVER_assume(d != NULL); struct vstream *o = malloc(sizeof(struct vstream)); __CPROVER_assume(o != NULL); o->buf = malloc(64); __CPROVER_assume(o->buf != NULL); o->cap = 64; StringDictionaryRPDAC__save(d, o); REACH_POINT(); }
void h_sf_HASHHF(void) { StringDictionaryHASHHF *d = malloc(sizeof(StringDictionaryHASHHF)); __CPROVER_assume(d != NULL); struct vstream *o = malloc(sizeof(struct vstream)); __CPROVER_assume(o != NULL); o->buf = malloc(64); __CPROVER_assume(o->buf != NULL); o->cap = 64; StringDictionaryHASHHF__save(d, o); REACH_POINT(); }
void h_sf_HASHRPF(void) { StringDictionaryHASHRPF *d = malloc(sizeof(StringDictionaryHASHRPF)); __CPROVER_assume(d != NULL); struct vstream *o = malloc(sizeof(struct vstream)); __CPROVER_assume(o != NULL); o->buf = malloc(64); __CPROVER_assume(o->buf != NULL); o->cap = 64; StringDictionaryHASHRPF__save(d, o); REACH_POINT(); }
void h_sf_HASHUFFDAC(void) { StringDictionaryHASHUFFDAC *d = malloc(sizeof(StringDictionaryHASHUFFDAC)); __CPROVER_assume(d != NULL); struct vstream *o = malloc(sizeof(struct vstream)); __CPROVER_assume(o != NULL); o->buf = malloc(64); __CPROVER_assume(o->buf != NULL); o->cap = 64; StringDictionaryHASHUFFDAC__save(d, o); REACH_POINT(); }
void h_sf_HASHRPDAC(void) { StringDictionaryHASHRPDAC *d = malloc(sizeof(StringDictionaryHASHRPDAC)); __CPROVER_assume(d != NULL); struct vstream *o = malloc(sizeof(struct vstream)); __CPROVER_assume(o != NULL); o->buf = malloc(64); __CPROVER_assume(o->buf != NULL); o->cap = 64; StringDictionaryHASHRPDAC__save(d, o); REACH_POINT(); }
void h_sf_FMINDEX(void) { StringDictionaryFMINDEX *d = malloc(sizeof(StringDictionaryFMINDEX)); __CPROVER_assume(d != NULL); struct vstream *o = malloc(sizeof(struct vstream)); __CPROVER_assume(o != NULL); o->buf = malloc(64); __CPROVER_assume(o->buf != NULL); o->cap = 64; StringDictionaryFMINDEX__save(d, o); REACH_POINT(); }
void h_sf_XBW(void) { StringDictionaryXBW *d = malloc(sizeof(StringDictionaryXBW)); __CPROVER_assume(d != NULL); struct vstream *o = malloc(sizeof(struct vstream)); __CPROVER_assume(o != NULL); o->buf = malloc(64); __CPROVER_assume(o->buf != NULL); o->cap = 64; StringDictionaryXBW__save(d, o); REACH_POINT(); }

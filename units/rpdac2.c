//@ unit rpdac2
//@ tu StringDictionaryRPDAC.cpp
//@ class StringDictionary
//@ class StringDictionaryRPDAC
//@ class IteratorDictID
//@ class IteratorDictIDContiguous
//@ opaque RePair
//@ fn StringDictionaryRPDAC::locatePrefix
//@   requires(__CPROVER_r_ok(this, sizeof(*this)) && this->elements < ((uint64_t)1 << 31) && 1 <= g_lo && g_lo <= g_hi + 1 && g_hi <= this->elements)
//@   ensures(__CPROVER_r_ok(RET, sizeof(IteratorDictIDContiguous)))
//@   ensures(g_lo <= g_hi ==> (((IteratorDictIDContiguous *)RET)->leftLimit == g_lo && ((IteratorDictIDContiguous *)RET)->rightLimit == g_hi))
//@   ensures(g_lo > g_hi ==> (((IteratorDictIDContiguous *)RET)->leftLimit == NORESULT && ((IteratorDictIDContiguous *)RET)->rightLimit == NORESULT))
//@   assigns()
//@   loop 1: assigns(left, right, center, cmp)
//@   loop 1: invariant(1 <= left && left <= right + 1 && right <= this->elements && left <= g_lo && g_hi <= right)
//@   loop 1: invariant(cmp != 0 || (center == 0 && left == 1 && right == this->elements))
//@   loop 1: decreases(right + 1 - left)
//@   loop 2: assigns(ll, lr, lc, cmp)
//@   loop 2: invariant(1 <= ll && ll <= lr + 1 && lr <= center - 1 && ll <= g_lo && g_lo <= lr + 1)
//@   loop 2: decreases(lr + 1 - ll)
//@   loop 3: assigns(rl, rr, rc, cmp)
//@   loop 3: invariant(center <= rl && rl < rr && rr <= this->elements + 1 && rl <= g_hi && g_hi < rr)
//@   loop 3: decreases(rr - rl)
//@ ob rpdac_locatePrefix entry=h_rpdac_lp enforce=StringDictionaryRPDAC__locatePrefix replace=RePair__extractPrefixAndCompareDAC,IteratorDictIDContiguous__ctor__size_t__size_t loops tier=P props=C04,C03,C07,C14 kind=statement timeout=1500
size_t g_hi_bound; /* ghost: number of strings (IDs passed to the comparison must not exceed it) */
size_t g_lo, g_hi;   /* ghost: the IDs whose strings start with the pattern are exactly g_lo..g_hi (none when g_lo == g_hi + 1) */
//@ structs
/* ASSUMES: fewer than 2^31 strings: the boundary searches of RPDAC::locatePrefix add two 32-bit IDs */
/* TRUSTED: interface contract of the prefix comparison on the grammar (its behaviour against a reference: repair/rp_pfxDAC_ref, bounded): IDs are in
 * lexicographic order, so the strings starting with the pattern are a range g_lo..g_hi; smaller IDs compare negative, larger ones positive; nothing is written */
int RePair__extractPrefixAndCompareDAC(RePair *this, uint id, uchar *prefix, uint prefixLen)
__CPROVER_requires(id >= 1 && id <= g_hi_bound)
__CPROVER_ensures(((RET < 0) == (id < g_lo)) && ((RET > 0) == (id > g_hi)))
__CPROVER_assigns();
/* contract of the ID iterator's constructor: discharged in unit pfc_nav (nav_idit_ctor) */
IteratorDictIDContiguous *IteratorDictIDContiguous__ctor__size_t__size_t(IteratorDictIDContiguous *this, size_t left, size_t right)
__CPROVER_requires(__CPROVER_w_ok(this, sizeof(*this)))
__CPROVER_ensures(RET == this && this->leftLimit == left && this->rightLimit == right && this->processed == left - 1 && this->scanneable == right)
__CPROVER_assigns(__CPROVER_object_whole(this));
//@ lowered
void h_rpdac_lp(void) {
  StringDictionaryRPDAC *d = malloc(sizeof(StringDictionaryRPDAC)); __CPROVER_assume(d != NULL);
  __CPROVER_assume(g_hi_bound == d->elements);
  uchar *pat = malloc(8); __CPROVER_assume(pat != NULL); uint in_len;
  StringDictionaryRPDAC__locatePrefix(d, pat, in_len);
  REACH_POINT();
}

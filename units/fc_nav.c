//@ unit fc_nav
//@ opaque LogSequence
//@ class StringDictionary tu=StringDictionaryRPFC.cpp
//@ class StringDictionaryRPFC tu=StringDictionaryRPFC.cpp
//@ class StringDictionaryHTFC tu=StringDictionaryHTFC.cpp
//@ class StringDictionaryHHTFC tu=StringDictionaryHHTFC.cpp
//@ class StringDictionaryRPHTFC tu=StringDictionaryRPHTFC.cpp
//@ fn StringDictionaryRPFC::locateBucket tu=StringDictionaryRPFC.cpp
//@   requires(__CPROVER_r_ok(this, sizeof(*this)) && g_text_len >= 1 && g_text_len <= 100000 && __CPROVER_r_ok(this->textStrings, g_text_len) && OFFS(this->textStrings) == 0 && this->buckets >= 1 && this->buckets < (1u << 31) && __CPROVER_r_ok(str, 1) && __CPROVER_w_ok(idbucket, sizeof(size_t)))
//@   ensures(*idbucket <= this->buckets && (RET ==> *idbucket >= 1))
//@   assigns(*idbucket)
//@   loop 1: assigns(left, right, center, cmp)
//@   loop 1: invariant(1 <= left && left <= right + 1 && right <= this->buckets && center <= this->buckets && (center == 0 ==> (cmp == 0 && left == 1 && right == this->buckets)))
//@   loop 1: invariant(center >= 1 ==> ((cmp > 0 && right == center - 1) || (cmp < 0 && left == center + 1)))
//@   loop 1: decreases(right + 1 - left)
//@ fn StringDictionaryHTFC::locateBucket tu=StringDictionaryHTFC.cpp
//@   requires(__CPROVER_r_ok(this, sizeof(*this)) && this->buckets >= 1 && this->buckets < (1u << 31) && __CPROVER_r_ok(str, 1) && __CPROVER_w_ok(idbucket, sizeof(size_t)))
//@   ensures(*idbucket <= this->buckets && (RET ==> *idbucket >= 1))
//@   assigns(*idbucket)
//@   loop 1: assigns(left, right, center, cmp, header)
//@   loop 1: invariant(1 <= left && left <= right + 1 && right <= this->buckets && center <= this->buckets && (center == 0 ==> (cmp == 0 && left == 1 && right == this->buckets)))
//@   loop 1: invariant(center >= 1 ==> ((cmp > 0 && right == center - 1) || (cmp < 0 && left == center + 1)))
//@   loop 1: decreases(right + 1 - left)
//@ fn StringDictionaryHHTFC::locateBucket tu=StringDictionaryHHTFC.cpp
//@   requires(__CPROVER_r_ok(this, sizeof(*this)) && this->buckets >= 1 && this->buckets < (1u << 31) && __CPROVER_r_ok(str, 1) && __CPROVER_w_ok(idbucket, sizeof(size_t)))
//@   ensures(*idbucket <= this->buckets && (RET ==> *idbucket >= 1))
//@   assigns(*idbucket)
//@   loop 1: assigns(left, right, center, cmp, header)
//@   loop 1: invariant(1 <= left && left <= right + 1 && right <= this->buckets && center <= this->buckets && (center == 0 ==> (cmp == 0 && left == 1 && right == this->buckets)))
//@   loop 1: invariant(center >= 1 ==> ((cmp > 0 && right == center - 1) || (cmp < 0 && left == center + 1)))
//@   loop 1: decreases(right + 1 - left)
//@ fn StringDictionaryRPHTFC::locateBucket tu=StringDictionaryRPHTFC.cpp
//@   requires(__CPROVER_r_ok(this, sizeof(*this)) && this->buckets >= 1 && this->buckets < (1u << 31) && __CPROVER_r_ok(str, 1) && __CPROVER_w_ok(idbucket, sizeof(size_t)))
//@   ensures(*idbucket <= this->buckets && (RET ==> *idbucket >= 1))
//@   assigns(*idbucket)
//@   loop 1: assigns(left, right, center, cmp, header)
//@   loop 1: invariant(1 <= left && left <= right + 1 && right <= this->buckets && center <= this->buckets && (center == 0 ==> (cmp == 0 && left == 1 && right == this->buckets)))
//@   loop 1: invariant(center >= 1 ==> ((cmp > 0 && right == center - 1) || (cmp < 0 && left == center + 1)))
//@   loop 1: decreases(right + 1 - left)
//@ ob fc_locateBucket_RPFC entry=h_lb_RPFC enforce=StringDictionaryRPFC__locateBucket replace=LogSequence__getField,strcmp loops tier=P props=C02,C01,C07,C14 kind=representation timeout=600
//@ ob fc_locateBucket_HTFC entry=h_lb_HTFC enforce=StringDictionaryHTFC__locateBucket replace=StringDictionaryHTFC__getHeader,memcmp loops tier=P props=C02,C01,C07,C14 kind=representation timeout=600
//@ ob fc_locateBucket_HHTFC entry=h_lb_HHTFC enforce=StringDictionaryHHTFC__locateBucket replace=StringDictionaryHHTFC__getHeader,memcmp loops tier=P props=C02,C01,C07,C14 kind=representation timeout=600
//@ ob fc_locateBucket_RPHTFC entry=h_lb_RPHTFC enforce=StringDictionaryRPHTFC__locateBucket replace=StringDictionaryRPHTFC__getHeader,memcmp loops tier=P props=C02,C01,C07,C14 kind=representation timeout=600
//@ structs
/* TRUSTED: comparison and header-access interfaces for the bucket binary search of the other front-coding kinds: the search itself (range of the candidate bucket, termination, frame) is what is proved; that the header comparison reads inside the text is not decided here */
int strcmp(const char *s1, const char *s2) __CPROVER_requires(1) __CPROVER_ensures(1) __CPROVER_assigns();
int memcmp(const void *s1, const void *s2, size_t n) __CPROVER_requires(1) __CPROVER_ensures(1) __CPROVER_assigns();
size_t g_text_len;
size_t LogSequence__getField(LogSequence *this, size_t position) __CPROVER_requires(position >= 1) __CPROVER_ensures(RET < g_text_len) __CPROVER_assigns();
uchar *StringDictionaryHTFC__getHeader(StringDictionaryHTFC *this, size_t idbucket) __CPROVER_requires(idbucket >= 1 && idbucket <= this->buckets) __CPROVER_ensures(1) __CPROVER_assigns();
uchar *StringDictionaryHHTFC__getHeader(StringDictionaryHHTFC *this, size_t idbucket) __CPROVER_requires(idbucket >= 1 && idbucket <= this->buckets) __CPROVER_ensures(1) __CPROVER_assigns();
uchar *StringDictionaryRPHTFC__getHeader(StringDictionaryRPHTFC *this, size_t idbucket) __CPROVER_requires(idbucket >= 1 && idbucket <= this->buckets) __CPROVER_ensures(1) __CPROVER_assigns();
//@ lowered
void h_lb_RPFC(void) { StringDictionaryRPFC *d = malloc(sizeof(StringDictionaryRPFC)); __CPROVER_assume(d != NULL); size_t in_tl; __CPROVER_assume(in_tl <= 100000); d->textStrings = malloc(in_tl); __CPROVER_assume(d->textStrings != NULL); g_text_len = in_tl; uchar *s = malloc(4); __CPROVER_assume(s != NULL); size_t b; StringDictionaryRPFC__locateBucket(d, s, &b); REACH_POINT(); }
void h_lb_HTFC(void) { StringDictionaryHTFC *d = malloc(sizeof(StringDictionaryHTFC)); __CPROVER_assume(d != NULL); uchar *s = malloc(4); __CPROVER_assume(s != NULL); size_t b; uint in_len; StringDictionaryHTFC__locateBucket(d, s, in_len, &b); REACH_POINT(); }
void h_lb_HHTFC(void) { StringDictionaryHHTFC *d = malloc(sizeof(StringDictionaryHHTFC)); __CPROVER_assume(d != NULL); uchar *s = malloc(4); __CPROVER_assume(s != NULL); size_t b; uint in_len; StringDictionaryHHTFC__locateBucket(d, s, in_len, &b); REACH_POINT(); }
void h_lb_RPHTFC(void) { StringDictionaryRPHTFC *d = malloc(sizeof(StringDictionaryRPHTFC)); __CPROVER_assume(d != NULL); uchar *s = malloc(4); __CPROVER_assume(s != NULL); size_t b; uint in_len; StringDictionaryRPHTFC__locateBucket(d, s, in_len, &b); REACH_POINT(); }

//@ unit pfc_frame3
//@ tu StringDictionaryPFC.cpp
//@ class StringDictionary
//@ class StringDictionaryPFC
//@ class LogSequence tu=utils/LogSequence.cpp
//@ class VByte tu=utils/VByte.cpp
//@ fn longestCommonPrefix
//@   requires(__CPROVER_rw_ok(lcp, sizeof(uint)) && !__CPROVER_same_object(lcp, str1) && !__CPROVER_same_object(lcp, str2))
//@   ensures(*lcp - OLD(*lcp) <= length)
//@   assigns(*lcp)
//@   loop 1: assigns(ptr)
//@   loop 1: invariant(ptr <= length)
//@   loop 1: decreases(length - ptr)
//@ fn StringDictionaryPFC::searchPrefix
//@   requires(__CPROVER_rw_ok(ptr, sizeof(uchar *)) && __CPROVER_rw_ok(decLen, sizeof(uint)) && __CPROVER_rw_ok(decoded, 1) && OFFS(decoded) == 0)
//@   requires(!__CPROVER_same_object(decoded, ptr) && !__CPROVER_same_object(decoded, decLen) && !__CPROVER_same_object(ptr, decLen) && !__CPROVER_same_object(str, decoded) && scanneable >= 1 && scanneable < 0xFFFFFFFFu)
//@   ensures(RET <= scanneable)
//@   assigns(*ptr, *decLen, __CPROVER_object_whole(decoded))
//@   loop 1: assigns(cmp, id, sharedCurr, sharedPrev, *ptr, *decLen, __CPROVER_object_whole(decoded))
//@   loop 1: invariant(id >= 1 && id <= scanneable)
//@ fn StringDictionaryPFC::searchDistinctPrefix
//@   requires(__CPROVER_rw_ok(decLen, sizeof(uint)) && __CPROVER_rw_ok(decoded, 1) && OFFS(decoded) == 0 && !__CPROVER_same_object(decoded, decLen) && scanneable < 0xFFFFFFFFu)
//@   ensures(RET >= 1 && RET <= scanneable + 1)
//@   assigns(*decLen, __CPROVER_object_whole(decoded))
//@   loop 1: assigns(id, ptr, lenPrefix, *decLen, __CPROVER_object_whole(decoded))
//@   loop 1: invariant(id >= 1 && id <= scanneable + 1)
//@   loop 1: decreases(scanneable + 1 - id)
//@ ob frame_lcp entry=h_lcp enforce=longestCommonPrefix loops tier=P props=C14,C04 kind=statement nochecks=bounds-check,pointer-check,pointer-overflow-check,pointer-primitive-check
//@ ob frame_searchPrefix entry=h_sp enforce=StringDictionaryPFC__searchPrefix replace=longestCommonPrefix,VByte__decode,StringDictionaryPFC__decodeNextString loops tier=P props=C14,C04 kind=statement nochecks=bounds-check,pointer-check,pointer-overflow-check,pointer-primitive-check
//@ ob frame_searchDistinctPrefix entry=h_sdp enforce=StringDictionaryPFC__searchDistinctPrefix replace=VByte__decode,StringDictionaryPFC__decodeNextString loops tier=P props=C14,C04 kind=statement nochecks=bounds-check,pointer-check,pointer-overflow-check,pointer-primitive-check
//@ structs
/* ASSUMES: frame obligations: what searchPrefix / searchDistinctPrefix / longestCommonPrefix write (their out-parameters and the scratch buffer `decoded`, never the pattern) and the range of their results; read-side memory checks are off here -- memory safety of these scans is decided on the bounded grid (unit pfc_repr) */
/* TRUSTED: frames of VByte::decode (proved with its full contract in unit vbyte) and decodeNextString (proved in unit pfc_nav2) */
uint VByte__decode(uint *c, uchar *r) __CPROVER_requires(__CPROVER_w_ok(c, sizeof(uint))) __CPROVER_ensures(RET >= 1 && RET <= 5) __CPROVER_assigns(*c);
void StringDictionaryPFC__decodeNextString(StringDictionaryPFC *this, uchar **ptr, uint lenPrefix, uchar *str, uint *strLen)
__CPROVER_requires(__CPROVER_rw_ok(ptr, sizeof(uchar *)) && __CPROVER_w_ok(strLen, sizeof(uint)) && __CPROVER_rw_ok(str, 1)) __CPROVER_ensures(1) __CPROVER_assigns(*ptr, *strLen, __CPROVER_object_whole(str));
//@ lowered
void h_lcp(void) { uchar *a = malloc(8), *b = malloc(8); uint in_len, lcp; longestCommonPrefix(a, b, in_len, &lcp); REACH_POINT(); }
void h_sp(void) {
  StringDictionaryPFC *d = malloc(sizeof(StringDictionaryPFC)); uchar *p; uint in_scan, dl, in_sl; uchar *dec = malloc(64); uchar *pat = malloc(16);
  __CPROVER_assume(d != NULL && dec != NULL && pat != NULL);
  StringDictionaryPFC__searchPrefix(d, &p, in_scan, dec, &dl, pat, in_sl);
  REACH_POINT();
}
void h_sdp(void) {
  StringDictionaryPFC *d = malloc(sizeof(StringDictionaryPFC)); uchar *p; uint in_scan, dl, in_sl; uchar *dec = malloc(64); uchar *pat = malloc(16);
  __CPROVER_assume(d != NULL && dec != NULL && pat != NULL);
  StringDictionaryPFC__searchDistinctPrefix(d, p, in_scan, dec, &dl, pat, in_sl);
  REACH_POINT();
}

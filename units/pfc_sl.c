//@ unit pfc_sl
//@ tu StringDictionaryPFC.cpp
//@ class StringDictionary
//@ class StringDictionaryPFC
//@ class LogSequence tu=utils/LogSequence.cpp
//@ global PFC RPFC HTFC HHTFC RPHTFC RPDAC FMINDEX DXBW HASHHF HASHUFFDAC HASHRPF HASHRPDAC HASHRPDACBlocks
//@ fn LogSequence::maxVal tu=utils/LogSequence.cpp
//@ fn LogSequence::numElementsFor tu=utils/LogSequence.cpp
//@ fn LogSequence::numBytesFor tu=utils/LogSequence.cpp
//@ fn LogSequence::get_field tu=utils/LogSequence.cpp
//@ fn LogSequence::getField tu=utils/LogSequence.cpp
//@ fn LogSequence::save tu=utils/LogSequence.cpp
//@   requires(__CPROVER_r_ok(this, sizeof(*this)) && VS_OK(out))
//@   requires(this->numbits >= 1 && this->numbits <= 64 && this->numentries <= 64 && __CPROVER_r_ok(this->array, 8 * LS_WORDS(this->numbits, this->numentries)))
//@   requires(out->pos + 9 + 8 * LS_WORDS(this->numbits, this->numentries) <= out->cap)
//@   ensures(out->pos == OLD(out->pos) + 9 + 8 * LS_WORDS(this->numbits, this->numentries))
//@   assigns(out->pos, __CPROVER_object_whole(out->buf))
//@ fn LogSequence::ctor tu=utils/LogSequence.cpp sig=vstream_p
//@ fn LogSequence::ctor tu=utils/LogSequence.cpp sig=0
//@ fn StringDictionaryPFC::ctor sig=0
//@ fn StringDictionaryPFC::save
//@   requires(__CPROVER_r_ok(this, sizeof(*this)) && VS_OK(out) && __CPROVER_r_ok(this->textStrings, this->bytesStrings) && this->bytesStrings <= 64)
//@   requires(__CPROVER_r_ok(this->blStrings, sizeof(LogSequence)))
//@   requires(this->blStrings->numbits >= 1 && this->blStrings->numbits <= 64 && this->blStrings->numentries <= 64 && __CPROVER_r_ok(this->blStrings->array, 8 * LS_WORDS(this->blStrings->numbits, this->blStrings->numentries)))
//@   requires(out->pos + 32 + this->bytesStrings + 9 + 8 * LS_WORDS(this->blStrings->numbits, this->blStrings->numentries) <= out->cap)
//@   ensures(out->pos == OLD(out->pos) + 32 + this->bytesStrings + 9 + 8 * LS_WORDS(this->blStrings->numbits, this->blStrings->numentries))
//@   assigns(out->pos, __CPROVER_object_whole(out->buf))
//@ fn StringDictionaryPFC::load
//@ ob sl_logseq entry=h_sl_logseq tier=C props=C06,C17,C08 kind=statement grid=lsgrid replay=sl
//@ ob sl_pfc entry=h_sl_pfc tier=C props=C06,C08,C15 kind=statement grid=slpfc replay=sl
//@ ob sl_pfc_save_frame entry=h_save_frame enforce=StringDictionaryPFC__save replace=LogSequence__save,vstream__write tier=C props=C08,C14,C06,C07 kind=statement
//@ ob sl_logseq_save_frame entry=h_ls_save_frame enforce=LogSequence__save replace=vstream__write tier=C props=C08,C06,C07 kind=statement foreach=WIDTH:1-64 quick=WIDTH:1,7,33,64
//@ ob sl_pfc_wrongtag entry=h_wrongtag tier=C props=C16,C06 kind=statement unwind=6
#define VSTREAM_WRITE_CONTRACT
#include "vstream.h"
#define LS_WORDS(w, n) (((size_t)(w) * (n) + 63) / 64)
#define VS_OK(s) (__CPROVER_rw_ok((s), sizeof(struct vstream)) && __CPROVER_rw_ok((s)->buf, (s)->cap) && (s)->pos <= (s)->cap && (s)->cap <= 4096)
//@ structs
//@ lowered
#ifndef WIDTH
#define WIDTH 8
#endif
#ifndef LSN
#define LSN 3
#endif
#ifndef TEXTLEN
#define TEXTLEN 3
#endif
#define LSWORDS LS_WORDS(WIDTH, LSN)
#define BUFCAP 256
static void mk_stream(struct vstream *s, uchar *buf) { s->buf = buf; s->pos = 0; s->cap = BUFCAP; }
static void mk_logseq(LogSequence *ls, size_t *words) {
  ls->numbits = WIDTH; ls->numentries = LSN; ls->arraysize = LSWORDS; ls->maxval = LogSequence__maxVal(ls, WIDTH); ls->array = words;
}
/* C06/C17: LogSequence save -> load is the identity on every field and word, and load consumes exactly what save wrote */
void h_sl_logseq(void) {
  static uchar buf[BUFCAP]; struct vstream out, in; mk_stream(&out, buf);
  size_t in_words[LSWORDS ? LSWORDS : 1]; LogSequence a; mk_logseq(&a, in_words);
  size_t in_pre; __CPROVER_assume(in_pre <= 8); out.pos = in_pre;     /* images can follow one another in a stream */
  LogSequence__save(&a, &out);
  in = out; in.pos = in_pre;
  LogSequence *b = LogSequence__ctor__vstream_p((LogSequence *)cxx_new(sizeof(LogSequence)), &in);
  __CPROVER_assert(in.pos == out.pos, "C06: load consumes exactly the bytes save wrote (self-delimiting)");
  __CPROVER_assert(b->numbits == a.numbits && b->numentries == a.numentries && b->maxval == a.maxval && b->arraysize == a.arraysize, "C06: LogSequence fields equal after reload");
  size_t k; __CPROVER_assume(k < LSWORDS);
  __CPROVER_assert(b->array[k] == a.array[k], "C06/C17: packed words equal after reload");
  size_t e; __CPROVER_assume(e < LSN);
  __CPROVER_assert(LogSequence__getField(b, e) == LogSequence__getField(&a, e), "C17: every position returns the same value after save/load");
  REACH_POINT();
}
/* C06/C08/C15: PFC save -> load */
void h_sl_pfc(void) {
  static uchar buf[BUFCAP]; struct vstream out, in; mk_stream(&out, buf);
  size_t in_words[LSWORDS ? LSWORDS : 1]; LogSequence ls; mk_logseq(&ls, in_words);
  uchar in_text[TEXTLEN ? TEXTLEN : 1];
  StringDictionaryPFC d; uint64_t in_elements; uint32_t in_maxlength, in_buckets, in_bucketsize;
  d.type = PFC; d.elements = in_elements; d.maxlength = in_maxlength; d.buckets = in_buckets; d.bucketsize = in_bucketsize;
  d.bytesStrings = TEXTLEN; d.textStrings = in_text; d.blStrings = &ls;
  StringDictionaryPFC__save(&d, &out);
  size_t end1 = out.pos;
  __CPROVER_assert(buf[0] == (PFC & 255) && buf[1] == ((PFC >> 8) & 255) && buf[2] == 0 && buf[3] == 0, "C06/C08: image starts with the kind's type tag");
  /* a second save of the same object writes the same bytes (C08) */
  static uchar buf2[BUFCAP]; struct vstream out2; mk_stream(&out2, buf2);
  StringDictionaryPFC__save(&d, &out2);
  size_t j; __CPROVER_assume(j < end1);
  __CPROVER_assert(out2.pos == end1 && buf2[j] == buf[j], "C08: second save writes the same bytes");
  in = out; in.pos = 0;
  StringDictionaryPFC *e = (StringDictionaryPFC *)StringDictionaryPFC__load(&in);
  __CPROVER_assert(e != NULL, "C06: the kind's own loader accepts its image");
  __CPROVER_assert(in.pos == end1, "C06: load consumes exactly the bytes save wrote (self-delimiting)");
  __CPROVER_assert(e->type == PFC, "C08: a loaded object carries the kind's tag (re-saving reproduces it)");
  __CPROVER_assert(e->elements == in_elements && e->maxlength == in_maxlength, "C15/C06: numElements and maxLength survive save/load");
  __CPROVER_assert(e->buckets == in_buckets && e->bucketsize == in_bucketsize && e->bytesStrings == TEXTLEN, "C06: PFC scalar fields equal after reload");
  size_t k; __CPROVER_assume(k < TEXTLEN);
  __CPROVER_assert(e->textStrings[k] == in_text[k], "C06: text bytes equal after reload");
  __CPROVER_assert(e->blStrings->numbits == ls.numbits && e->blStrings->numentries == ls.numentries && e->blStrings->arraysize == ls.arraysize && e->blStrings->maxval == ls.maxval, "C06: bucket index fields equal after reload");
  size_t w; __CPROVER_assume(w < LSWORDS);
  __CPROVER_assert(e->blStrings->array[w] == in_words[w], "C06: bucket index words equal after reload");
  /* re-saving the loaded object reproduces the image (C08) */
  static uchar buf3[BUFCAP]; struct vstream out3; mk_stream(&out3, buf3);
  StringDictionaryPFC__save(e, &out3);
  __CPROVER_assert(out3.pos == end1 && buf3[j] == buf[j], "C08: saving the loaded dictionary writes a byte-identical image");
  REACH_POINT();
}
/* C08/C14: save writes nothing but the stream (dfcc frame check on the real body) */
void h_save_frame(void) {
  StringDictionaryPFC *d = malloc(sizeof(StringDictionaryPFC)); __CPROVER_assume(d != NULL);
  d->blStrings = malloc(sizeof(LogSequence)); __CPROVER_assume(d->blStrings != NULL);
  size_t tl; __CPROVER_assume(tl <= 64); d->textStrings = malloc(tl); __CPROVER_assume(d->textStrings != NULL);
  size_t nw; __CPROVER_assume(nw <= 64); d->blStrings->array = malloc(nw * 8); __CPROVER_assume(d->blStrings->array != NULL);
  struct vstream *o = malloc(sizeof(struct vstream)); __CPROVER_assume(o != NULL);
  size_t cap; __CPROVER_assume(cap <= 4096); o->buf = malloc(cap); __CPROVER_assume(o->buf != NULL); o->cap = cap;
  StringDictionaryPFC__save(d, o);
  REACH_POINT();
}
void h_ls_save_frame(void) {
  LogSequence *l = malloc(sizeof(LogSequence)); __CPROVER_assume(l != NULL);
  __CPROVER_assume(l->numbits == WIDTH);
  size_t nw; __CPROVER_assume(nw <= 64); l->array = malloc(nw * 8); __CPROVER_assume(l->array != NULL);
  struct vstream *o = malloc(sizeof(struct vstream)); __CPROVER_assume(o != NULL);
  size_t cap; __CPROVER_assume(cap <= 4096); o->buf = malloc(cap); __CPROVER_assume(o->buf != NULL); o->cap = cap;
  LogSequence__save(l, o);
  REACH_POINT();
}
/* C16: a kind's loader returns NULL when given another kind's image (any tag other than PFC) */
void h_wrongtag(void) {
  static uchar buf[BUFCAP]; struct vstream in; mk_stream(&in, buf);
  uint32_t in_tag; __CPROVER_assume(in_tag != PFC);
  buf[0] = in_tag & 255; buf[1] = (in_tag >> 8) & 255; buf[2] = (in_tag >> 16) & 255; buf[3] = (in_tag >> 24) & 255;
  __CPROVER_assert(StringDictionaryPFC__load(&in) == NULL, "C16: PFC loader returns NULL for an image with another type tag");
  REACH_POINT();
}

//@ unit hash2
//@ tu StringDictionaryHASHRPDAC.cpp
//@ opaque BitSequence LogSequence DAC_BVLS DAC_VLS
//@ class StringDictionary
//@ class RePair
//@ class HashDAC
//@ class Hash tu=StringDictionaryHASHRPF.cpp
//@ class StringDictionaryHASHRPDAC
//@ class StringDictionaryHASHRPF tu=StringDictionaryHASHRPF.cpp
//@ fn StringDictionaryHASHRPDAC::locate
//@   requires(__CPROVER_r_ok(this, sizeof(*this)) && __CPROVER_r_ok(this->hash, sizeof(HashDAC)) && this->hash->tsize >= 1 && this->hash->tsize <= TSMAX && g_ones <= this->hash->tsize && strLen <= 100000 && __CPROVER_r_ok(str, (size_t)strLen + 1))
//@   ensures(RET == NORESULT || (RET >= 1 && RET <= g_ones))
//@   requires(g_nacc == 0)
//@   ensures(RET == NORESULT ==> (!g_acc_val || g_nacc == this->hash->tsize))
//@   assigns(g_nacc, g_acc_idx, g_acc_val)
//@   loop 1: assigns(i, next, pos, g_nacc, g_acc_idx, g_acc_val)
//@   loop 1: invariant(g_nacc == i && 1 <= i && i <= this->hash->tsize)
//@   loop 1: decreases(this->hash->tsize - i)
//@ fn StringDictionaryHASHRPF::locate tu=StringDictionaryHASHRPF.cpp
//@   requires(__CPROVER_r_ok(this, sizeof(*this)) && __CPROVER_r_ok(this->hash, sizeof(Hash)) && this->hash->tsize >= 1 && this->hash->tsize <= TSMAX && g_ones <= this->hash->tsize && strLen <= 100000 && __CPROVER_rw_ok(str, (size_t)strLen + 1) && str[strLen] == 0 && __CPROVER_r_ok(this->rp, sizeof(RePair)))
//@   ensures(RET == NORESULT || (RET >= 1 && RET <= g_ones))
//@   ensures(gk <= strLen ==> str[gk] == OLD(str[gk]))
//@   requires(g_nacc == 0)
//@   ensures(RET == NORESULT ==> (!g_acc_val || g_nacc == this->hash->tsize || g_nacc == 0))
//@   assigns(g_nacc, g_acc_idx, g_acc_val, str[strLen])
//@   loop 1: assigns(i)
//@   loop 1: invariant(i <= strLen && (gk < i ==> str[gk] != this->rp->maxchar))
//@   loop 1: decreases(strLen - i)
//@   loop 2: assigns(i, next, g_nacc, g_acc_idx, g_acc_val, str[strLen])
//@   loop 2: invariant(g_nacc == i && 1 <= i && i <= this->hash->tsize && str[strLen] == 0 && (gk < strLen ==> str[gk] == __CPROVER_loop_entry(str[gk])))
//@   loop 2: decreases(this->hash->tsize - i)
//@ fn HashDAC::search tu=Hash/HashDAC.cpp
//@   requires(__CPROVER_r_ok(this, sizeof(*this)) && this->tsize >= 1 && this->tsize <= TSMAX && g_ones <= this->tsize && len <= 100000 && (len == 0 || __CPROVER_r_ok(w, len)))
//@   ensures(RET == (size_t)-1 || RET < g_ones)
//@   requires(g_nacc == 0)
//@   ensures(RET == (size_t)-1 ==> (!g_acc_val || g_nacc == this->tsize))
//@   assigns(g_nacc, g_acc_idx, g_acc_val)
//@   loop 1: assigns(i, hval, pos, g_nacc, g_acc_idx, g_acc_val)
//@   loop 1: invariant(g_nacc == i && 1 <= i && i <= this->tsize && hval < this->tsize)
//@   loop 1: decreases(this->tsize - i)
//@ ob hashrpdac_locate entry=h_hrpdac_locate enforce=StringDictionaryHASHRPDAC__locate replace=bitwisehash,step_value,BitSequence__access,BitSequence__rank1,RePair__extractStringAndCompareDAC loops tier=P props=C02,C01,C07,C14,C12 kind=representation timeout=900
//@ ob hashrpf_locate entry=h_hrpf_locate enforce=StringDictionaryHASHRPF__locate replace=bitwisehash,step_value,BitSequence__access,BitSequence__rank1,RePair__extractStringAndCompareRP,Hash__getValuePos loops tier=P props=C02,C14,C07,C12,C01 kind=representation timeout=900
//@ ob hashdac_search entry=h_hashdac_search enforce=HashDAC__search replace=bitwisehash,step_value,BitSequence__access,BitSequence__rank1,HashDAC__scmp loops tier=P props=C02,C07,C14,C12 kind=representation timeout=900
#define TSMAX ((size_t)1 << 24)
size_t g_ones; size_t g_nacc; /* ghost: number of table cells inspected so far */ size_t g_acc_idx; bool g_acc_val; size_t gk;
//@ structs
/* TRUSTED: hash function ranges and probe-step range are proved in unit hash (hash_bitwisehash, hash_step_value); table bitmap interface as in unit hash; grammar comparisons: frames (extractStringAndCompareRP's restoration of the terminator is proved in unit repair) */
size_t bitwisehash(uchar *word, size_t len, size_t htsize)
__CPROVER_requires(htsize >= 1 && len <= 100000) __CPROVER_ensures(RET < htsize) __CPROVER_assigns();
size_t step_value(uchar *word, size_t len, size_t htsize)
__CPROVER_requires(htsize >= 1 && len <= 100000) __CPROVER_ensures((htsize == 1 && RET == 0) || (htsize >= 2 && RET >= 1 && RET < htsize)) __CPROVER_assigns();
bool BitSequence__access(BitSequence *this, size_t i)
__CPROVER_requires(i < TSMAX) __CPROVER_ensures(g_acc_idx == i && g_acc_val == RET && g_nacc == OLD(g_nacc) + 1) __CPROVER_assigns(g_acc_idx, g_acc_val, g_nacc);
size_t BitSequence__rank1(BitSequence *this, size_t i)
__CPROVER_requires(i < TSMAX) __CPROVER_ensures(RET <= i + 1 && RET <= g_ones && ((g_acc_idx == i && g_acc_val) ==> RET >= 1)) __CPROVER_assigns();
int RePair__extractStringAndCompareDAC(RePair *this, uint id, uchar *str, uint strLen)
__CPROVER_requires(id >= 1) __CPROVER_ensures(1) __CPROVER_assigns();
int RePair__extractStringAndCompareRP(RePair *this, uint id, uchar *str, uint strLen)
__CPROVER_requires(__CPROVER_rw_ok(str, (size_t)strLen + 1) && str[strLen] == 0) __CPROVER_requires(gk < strLen ==> str[gk] != this->maxchar) __CPROVER_ensures(str[strLen] == 0) __CPROVER_assigns(str[strLen]);
size_t Hash__getValuePos(Hash *this, size_t i)
__CPROVER_requires(i < TSMAX) __CPROVER_ensures(1) __CPROVER_assigns();
int HashDAC__scmp(HashDAC *this, size_t pos, uchar *w, size_t _u2)
__CPROVER_requires(pos < g_ones) __CPROVER_ensures(1) __CPROVER_assigns();
//@ lowered
void h_hrpdac_locate(void) {
  StringDictionaryHASHRPDAC *d = malloc(sizeof(StringDictionaryHASHRPDAC)); __CPROVER_assume(d != NULL);
  d->hash = malloc(sizeof(HashDAC)); __CPROVER_assume(d->hash != NULL);
  uint in_len; __CPROVER_assume(in_len <= 100000); uchar *s = malloc((size_t)in_len + 1); __CPROVER_assume(s != NULL);
  StringDictionaryHASHRPDAC__locate(d, s, in_len);
  REACH_POINT();
}
void h_hrpf_locate(void) {
  StringDictionaryHASHRPF *d = malloc(sizeof(StringDictionaryHASHRPF)); __CPROVER_assume(d != NULL);
  d->hash = malloc(sizeof(Hash)); __CPROVER_assume(d->hash != NULL);
  uint in_len; __CPROVER_assume(in_len <= 100000 && gk <= in_len); uchar *s = malloc((size_t)in_len + 1); __CPROVER_assume(s != NULL);
  d->rp = malloc(sizeof(RePair)); __CPROVER_assume(d->rp != NULL);
  StringDictionaryHASHRPF__locate(d, s, in_len);
  REACH_POINT();
}
void h_hashdac_search(void) {
  HashDAC *h = malloc(sizeof(HashDAC)); __CPROVER_assume(h != NULL);
  size_t in_len; __CPROVER_assume(in_len <= 100000); uchar *w = malloc(in_len ? in_len : 1); __CPROVER_assume(w != NULL);
  HashDAC__search(h, w, in_len);
  REACH_POINT();
}

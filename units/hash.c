//@ unit hash
//@ tu Hash/Hashdh.cpp
//@ opaque BitSequence LogSequence
//@ class Hash
//@ class Hashdh
//@ class HashBdh tu=Hash/HashBdh.cpp
//@ class HashBBdh tu=Hash/HashBBdh.cpp
//@ fn bitwisehash
//@   requires(htsize >= 1 && len <= 100000 && (len == 0 || __CPROVER_r_ok(word, len)))
//@   ensures(RET < htsize)
//@   assigns()
//@   loop 1: assigns(i, h, c)
//@   loop 1: invariant(i <= len && (i == 0 || h < htsize))
//@   loop 1: decreases(len - i)
//@ fn step_value
//@   requires(htsize >= 1 && len <= 100000 && (len == 0 || __CPROVER_r_ok(word, len)))
//@   ensures((htsize == 1 && RET == 0) || (htsize >= 2 && RET >= 1 && RET < htsize))
//@   assigns()
//@   loop 1: assigns(i, h)
//@   loop 1: invariant(i <= len)
//@   loop 1: decreases(len - i)
//@ fn Hash::insert tu=Hash/Hash.cpp
//@   requires(__CPROVER_rw_ok(this, sizeof(*this)) && this->tsize >= 1 && this->tsize <= TSMAX && len <= 100000 && (len == 0 || __CPROVER_r_ok(w, len)))
//@   requires(__CPROVER_rw_ok(this->hashtable, this->tsize * sizeof(size_t)) && __CPROVER_rw_ok(this->enclength, this->tsize * sizeof(size_t)))
//@   requires(this->hashtable != this->enclength && !__CPROVER_same_object(this->hashtable, this) && !__CPROVER_same_object(this->enclength, this))
//@   ensures(RET == (size_t)-1 || (RET < this->tsize && this->hashtable[RET] == offset && this->enclength[RET] == len && this->n == OLD(this->n) + 1))
//@   ensures(RET == (size_t)-1 ==> this->n == OLD(this->n))
//@   assigns(this->n, __CPROVER_object_whole(this->hashtable), __CPROVER_object_whole(this->enclength))
//@   loop 1: assigns(i, hval)
//@   loop 1: invariant(1 <= i && i <= this->tsize && hval < this->tsize)
//@   loop 1: decreases(this->tsize - i)
//@ fn Hash::scmp tu=Hash/Hash.cpp
//@   requires(__CPROVER_r_ok(this, sizeof(*this)) && g_data_len <= 300000 && len <= g_data_len && offset <= g_data_len - len && __CPROVER_r_ok(this->data, g_data_len) && (len == 0 || __CPROVER_r_ok(w, len)))
//@   ensures(RET == 0 || RET == 1)
//@   assigns()
//@   loop 1: assigns(i)
//@   loop 1: invariant(i <= len)
//@   loop 1: decreases(len - i)
//@ fn Hashdh::search
//@   requires(HASH_WF(this) && g_data_len <= 300000 && len <= 100000 && len <= g_data_len && len == g_query_len && __CPROVER_r_ok(this->data, g_data_len) && (len == 0 || __CPROVER_r_ok(w, len)))
//@   ensures(RET == (size_t)-1 || RET < g_ones)
//@   requires(g_nacc == 0)
//@   ensures(RET == (size_t)-1 ==> (!g_acc_val || g_nacc == this->tsize))
//@   assigns(g_nacc, g_acc_idx, g_acc_val)
//@   loop 1: assigns(i, next, g_nacc, g_acc_idx, g_acc_val)
//@   loop 1: invariant(g_nacc == i && 1 <= i && i <= this->tsize)
//@   loop 1: decreases(this->tsize - i)
//@ fn HashBdh::search tu=Hash/HashBdh.cpp
//@   requires(HASH_WF(this) && g_data_len <= 300000 && len <= 100000 && len <= g_data_len && len == g_query_len && __CPROVER_r_ok(this->data, g_data_len) && (len == 0 || __CPROVER_r_ok(w, len)))
//@   ensures(RET == (size_t)-1 || RET < g_ones)
//@   requires(g_nacc == 0)
//@   ensures(RET == (size_t)-1 ==> (!g_acc_val || g_nacc == this->tsize))
//@   assigns(g_nacc, g_acc_idx, g_acc_val)
//@   loop 1: assigns(i, hval, pos, g_nacc, g_acc_idx, g_acc_val)
//@   loop 1: invariant(g_nacc == i && 1 <= i && i <= this->tsize && hval < this->tsize)
//@   loop 1: decreases(this->tsize - i)
//@ fn HashBBdh::search tu=Hash/HashBBdh.cpp
//@   requires(HASH_WF(this) && g_data_len <= 300000 && len <= 100000 && len <= g_data_len && len == g_query_len && __CPROVER_r_ok(this->data, g_data_len) && (len == 0 || __CPROVER_r_ok(w, len)))
//@   ensures(RET == (size_t)-1 || RET < g_ones)
//@   requires(g_nacc == 0)
//@   ensures(RET == (size_t)-1 ==> (!g_acc_val || g_nacc == this->tsize))
//@   assigns(g_nacc, g_acc_idx, g_acc_val)
//@   loop 1: assigns(i, hval, pos, off_pos, g_nacc, g_acc_idx, g_acc_val)
//@   loop 1: invariant(g_nacc == i && 1 <= i && i <= this->tsize && hval < this->tsize)
//@   loop 1: decreases(this->tsize - i)
//@ fn HashBdh::load tu=Hash/HashBdh.cpp
//@   requires(g_set_cnt == 0 && g_ones <= 100000 && __CPROVER_rw_ok(fp, sizeof(*fp)) && fp->pos == 0 && fp->cap == 64 && __CPROVER_r_ok(fp->buf, 64))
//@   ensures(RET != NULL && RET->n == g_ones && g_set_cnt == g_ones && (g_ones >= 1 ==> g_set_last == g_ones - 1))
//@   assigns(g_set_cnt, g_set_last, g_new_entries, fp->pos)
//@   loop 1: assigns(i, g_set_cnt, g_set_last)
//@   loop 1: invariant(1 <= i && i <= g_ones + 1 && g_set_cnt == i - 1 && (i >= 2 ==> g_set_last == i - 2) && h_new->n == g_ones && h_new->hash == g_new_hash && h_new->b_ht == g_bits && seq == g_seq)
//@   loop 1: decreases(g_ones + 1 - i)
//@ fn HashBdh::ctor tu=Hash/HashBdh.cpp sig=0
//@ fn HashBdh::getValue tu=Hash/HashBdh.cpp
//@   requires(HASH_WF(this) && i >= 1 && i <= g_ones)
//@   ensures(1)
//@   assigns()
//@ ob hash_bitwisehash entry=h_bwh enforce=bitwisehash loops tier=P props=C02,C12,C07,C01 kind=statement
//@ ob hash_step_value entry=h_step enforce=step_value loops tier=P props=C02,C12,C07 kind=statement
//@ ob hash_insert entry=h_insert enforce=Hash__insert replace=bitwisehash,step_value loops tier=P props=C12,C07 kind=representation timeout=900
//@ ob hash_scmp entry=h_scmp enforce=Hash__scmp loops tier=P props=C14,C07 kind=statement
//@ ob hashdh_search entry=h_dh_search enforce=Hashdh__search replace=bitwisehash,step_value,BitSequence__access,BitSequence__rank1,LogSequence__getField,Hash__scmp loops tier=P props=C02,C07,C12,C14 kind=representation timeout=900
//@ ob hashbdh_search entry=h_bdh_search enforce=HashBdh__search replace=bitwisehash,step_value,BitSequence__access,BitSequence__rank1,LogSequence__getField,Hash__scmp loops tier=P props=C02,C07,C12,C14 kind=representation timeout=900
//@ ob hashbbdh_search entry=h_bbdh_search enforce=HashBBdh__search replace=bitwisehash,step_value,BitSequence__access,BitSequence__rank1,BitSequence__select1,Hash__scmp loops tier=P props=C02,C07,C12,C14 kind=representation timeout=900
//@ ob hashbdh_load entry=h_bdh_load enforce=HashBdh__load replace=LogSequence__ctor__vstream_p,LogSequence__ctor__unsigned_int__size_t,BitSequence__load,BitSequence__select1,LogSequence__getField,LogSequence__setField,LogSequence__getNumbits,LogSequence__delete loops tier=P props=C06,C12 kind=representation timeout=900
#include "vstream.h"
#define TSMAX ((size_t)1 << 24)
/* ghosts of the interface contracts */
size_t g_ones;            /* number of set bits of the table bitmap == number of stored strings */
size_t g_nacc; /* ghost: number of table cells inspected so far */ size_t g_acc_idx; bool g_acc_val;   /* last access(i) query and its answer */
size_t g_data_len, g_query_len;
size_t g_set_cnt, g_set_last;       /* setField calls on the rebuilt table: how many, last position */
LogSequence *g_new_hash, *g_seq; BitSequence *g_bits; size_t g_new_entries;
//@ structs
#define HASH_WF(h) (__CPROVER_r_ok((h), sizeof(*(h))) && (h)->tsize >= 1 && (h)->tsize <= TSMAX && (h)->n == g_ones && g_ones <= (h)->tsize)
/* TRUSTED: interface contract of BitSequence::access / rank1 / select1 on the table bitmap (length tsize, g_ones set bits): rank1(i) <= i+1, <= ones, >= 1 if bit i is set. Discharged for BitSequenceRG in unit rg (bounded). */
bool BitSequence__access(BitSequence *this, size_t i)
__CPROVER_requires(i < TSMAX) __CPROVER_ensures(g_acc_idx == i && g_acc_val == RET && g_nacc == OLD(g_nacc) + 1) __CPROVER_assigns(g_acc_idx, g_acc_val, g_nacc);
size_t BitSequence__rank1(BitSequence *this, size_t i)
__CPROVER_requires(i < TSMAX) __CPROVER_ensures(RET <= i + 1 && RET <= g_ones && ((g_acc_idx == i && g_acc_val) ==> RET >= 1)) __CPROVER_assigns();
size_t BitSequence__select1(BitSequence *this, size_t i)
__CPROVER_requires(i >= 1 && i <= g_ones) __CPROVER_ensures(RET < TSMAX && RET <= g_data_len - g_query_len) __CPROVER_assigns();
BitSequence *BitSequence__load(struct vstream *fp)
__CPROVER_requires(1) __CPROVER_ensures(RET == g_bits) __CPROVER_assigns();
/* ASSUMES: every offset stored in the hash table leaves room for the whole (encoded) query inside the data array, i.e. Hash::scmp never compares past the end of the data -- nothing in the code establishes this for a query longer than the last stored string */
/* TRUSTED: interface contracts of LogSequence (verified in unit logseq / pfc_sl): getField returns a stored offset; the loader returns the sequence that was saved; setField on the rebuilt table counts calls in ghost state */
size_t LogSequence__getField(LogSequence *this, size_t position)
__CPROVER_requires(position < TSMAX) __CPROVER_ensures(RET <= g_data_len - g_query_len) __CPROVER_assigns();
void LogSequence__setField(LogSequence *this, size_t position, size_t value)
__CPROVER_requires(this == g_new_hash && position < g_new_entries) __CPROVER_ensures(g_set_cnt == __CPROVER_old(g_set_cnt) + 1 && g_set_last == position) __CPROVER_assigns(g_set_cnt, g_set_last);
LogSequence *LogSequence__ctor__vstream_p(LogSequence *this, struct vstream *in)
__CPROVER_requires(1) __CPROVER_ensures(RET == g_seq) __CPROVER_assigns();
LogSequence *LogSequence__ctor__unsigned_int__size_t(LogSequence *this, unsigned int numbits, size_t capacity)
__CPROVER_requires(1) __CPROVER_ensures(RET == g_new_hash && g_new_entries == capacity) __CPROVER_assigns(g_new_entries);
uint LogSequence__getNumbits(LogSequence *this)
__CPROVER_requires(1) __CPROVER_ensures(RET >= 1 && RET <= 64) __CPROVER_assigns();
void LogSequence__delete(LogSequence *this)
__CPROVER_requires(this == g_seq) __CPROVER_ensures(1) __CPROVER_assigns();
struct LogSequence { char opaque; };
struct BitSequence { char opaque; };
//@ lowered
static uchar *mk_word(size_t n) { uchar *p = malloc(n ? n : 1); __CPROVER_assume(p != NULL); return p; }
void h_bwh(void) { size_t in_len, in_ht; uchar *w = mk_word(in_len); bitwisehash(w, in_len, in_ht); REACH_POINT(); }
void h_step(void) { size_t in_len, in_ht; uchar *w = mk_word(in_len); step_value(w, in_len, in_ht); REACH_POINT(); }
void h_insert(void) {
  Hash *h = malloc(sizeof(Hash)); __CPROVER_assume(h != NULL);
  size_t in_ts, in_len, in_off; __CPROVER_assume(in_ts >= 1 && in_ts <= TSMAX);
  h->hashtable = malloc(in_ts * sizeof(size_t)); h->enclength = malloc(in_ts * sizeof(size_t));
  __CPROVER_assume(h->hashtable != NULL && h->enclength != NULL && h->tsize == in_ts);
  uchar *w = mk_word(in_len);
  Hash__insert(h, w, in_len, in_off);
  REACH_POINT();
}
void h_scmp(void) {
  Hash *h = malloc(sizeof(Hash)); __CPROVER_assume(h != NULL);
  size_t in_len, in_off, in_dl; __CPROVER_assume(in_dl <= 300000);
  h->data = malloc(in_dl); __CPROVER_assume(h->data != NULL); g_data_len = in_dl;
  uchar *w = mk_word(in_len);
  Hash__scmp(h, in_off, w, in_len);
  REACH_POINT();
}
void h_dh_search(void) {
  Hashdh *h = malloc(sizeof(Hashdh)); __CPROVER_assume(h != NULL);
  size_t in_len; uchar *w = mk_word(in_len); g_query_len = in_len;
  size_t in_dl; __CPROVER_assume(in_dl <= 300000); h->data = malloc(in_dl); __CPROVER_assume(h->data != NULL); g_data_len = in_dl;
  Hashdh__search(h, w, in_len);
  REACH_POINT();
}
void h_bdh_search(void) {
  HashBdh *h = malloc(sizeof(HashBdh)); __CPROVER_assume(h != NULL);
  size_t in_len; uchar *w = mk_word(in_len); g_query_len = in_len;
  size_t in_dl; __CPROVER_assume(in_dl <= 300000); h->data = malloc(in_dl); __CPROVER_assume(h->data != NULL); g_data_len = in_dl;
  HashBdh__search(h, w, in_len);
  REACH_POINT();
}
void h_bdh_load(void) {
  static uchar buf[64]; struct vstream in; in.buf = buf; in.pos = 0; in.cap = 64;
  static LogSequence s1, s2; static BitSequence b; g_seq = &s1; g_new_hash = &s2; g_bits = &b;
  /* the image carries n as its second 8-byte word */
  size_t in_n; __CPROVER_assume(in_n <= 100000); g_ones = in_n;
  for (int k = 0; k < 8; k++) buf[8 + k] = (in_n >> (8 * k)) & 255;
  g_set_cnt = 0;
  HashBdh__load(&in);
  REACH_POINT();
}
void h_bbdh_search(void) {
  HashBBdh *h = malloc(sizeof(HashBBdh)); __CPROVER_assume(h != NULL);
  size_t in_len; uchar *w = mk_word(in_len); g_query_len = in_len;
  size_t in_dl; __CPROVER_assume(in_dl <= 300000); h->data = malloc(in_dl); __CPROVER_assume(h->data != NULL); g_data_len = in_dl;
  HashBBdh__search(h, w, in_len);
  REACH_POINT();
}

//@ unit bvls
//@ autostub havoc
//@ tu utils/DAC_BVLS.cpp
//@ class BitSequence
//@ class BitSequenceRG
//@ class DAC_BVLS
//@ fn DAC_BVLS::ctor sig=uint__uint__vec_uint_p__vec_uint_p__uchar_p__BitString_p
//@ fn DAC_BVLS::save
//@   requires(__CPROVER_r_ok(this, sizeof(*this)) && __CPROVER_rw_ok(fp, sizeof(struct vstream)) && __CPROVER_rw_ok(fp->buf, fp->cap) && fp->pos == 0 && fp->cap == 4096)
//@   requires(this->nLevels == NLEV && this->tamCode == TAM)
//@   ensures(1)
//@   assigns(fp->pos, __CPROVER_object_whole(fp->buf))
//@ ob bvls_save_frame entry=h_bvls_save enforce=DAC_BVLS__save replace=vstream__write,BitSequence__save tier=C props=C08,C07 kind=statement unwind=6
#define VSTREAM_WRITE_CONTRACT
#include "vstream.h"
#include "vec.h"
DEFINE_VEC(uint, vec_uint)
typedef struct BitString BitString;
#define NLEV 2
#define TAM 5
//@ structs
/* TRUSTED: BitSequenceRG's constructor and save are outside this obligation (havoc stubs); it is about the arrays DAC_BVLS itself owns: the object is built by the real constructor, so every array has exactly the size the constructor gives it */
void BitSequence__save(BitSequence *this, struct vstream *fp) __CPROVER_requires(1) __CPROVER_ensures(1) __CPROVER_assigns();
//@ lowered
/* C08/C07: save reads only inside the arrays the object owns (built by the real constructor) and writes only the stream */
void h_bvls_save(void) {
  struct vec_uint li, rl; vec_uint__ctor0(&li); vec_uint__ctor0(&rl);
  for (int i = 0; i < NLEV; i++) { uint a, b; vec_uint__push_back(&li, a); vec_uint__push_back(&rl, b); }
  uchar *levels = malloc(TAM); __CPROVER_assume(levels != NULL);
  BitString *bs = NULL;
  DAC_BVLS *d = malloc(sizeof(DAC_BVLS)); __CPROVER_assume(d != NULL);
  DAC_BVLS__ctor__uint__uint__vec_uint_p__vec_uint_p__uchar_p__BitString_p(d, TAM, NLEV, &li, &rl, levels, bs);
  struct vstream *o = malloc(sizeof(struct vstream)); __CPROVER_assume(o != NULL);
  o->buf = malloc(4096); __CPROVER_assume(o->buf != NULL); o->cap = 4096; o->pos = 0;
  DAC_BVLS__save(d, o);
  REACH_POINT();
}

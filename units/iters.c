//@ unit iters
//@ autostub
//@ tu StringDictionaryFMINDEX.cpp
//@ class IteratorDictID
//@ class IteratorDictIDDuplicates
//@ class IteratorDictIDContiguous
//@ class StringDictionary
//@ class StringDictionaryFMINDEX
//@ fn IteratorDictIDDuplicates::ctor
//@   requires(__CPROVER_w_ok(this, sizeof(*this)))
//@   ensures(this->ids == ids && this->scanneable == scanneable && this->processed == 0)
//@   assigns(__CPROVER_object_whole(this))
//@ fn IteratorDictIDDuplicates::next
//@   requires(__CPROVER_rw_ok(this, sizeof(*this)) && this->scanneable <= DUPMAX && this->processed < this->scanneable)
//@   requires(__CPROVER_r_ok(this->ids, (this->scanneable + 1) * sizeof(size_t)) && !__CPROVER_same_object(this->ids, this))
//@   requires(this->ids[this->scanneable] == 0 && this->ids[this->processed] >= 1)
//@   ensures(RET == this->ids[OLD(this->processed)])
//@   ensures(this->processed > OLD(this->processed) && this->processed <= this->scanneable)
//@   ensures(this->ids[this->processed - 1] == RET && this->ids[this->processed] != RET)
//@   ensures((gk >= OLD(this->processed) && gk < this->processed) ==> this->ids[gk] == RET)
//@   assigns(this->processed)
//@   loop 1: assigns(this->processed)
//@   loop 1: invariant(this->processed >= __CPROVER_loop_entry(this->processed) && this->processed < this->scanneable && next >= 1 && this->ids[this->processed] == next)
//@   loop 1: invariant((gk >= __CPROVER_loop_entry(this->processed) && gk <= this->processed) ==> this->ids[gk] == next)
//@   loop 1: decreases(this->scanneable - this->processed)
//@ fn StringDictionaryFMINDEX::locateSubstr
//@ fn StringDictionaryFMINDEX::extractSubstr
//@ ob dup_ctor entry=h_dup_ctor enforce=IteratorDictIDDuplicates__ctor__size_t_p__size_t tier=C props=C05,C13 kind=statement
//@ ob dup_next entry=h_dup_next enforce=IteratorDictIDDuplicates__next loops tier=P props=C05,C13,C07 kind=statement
//@ ob dup_once entry=h_dup_once replace=IteratorDictIDDuplicates__next tier=C props=C05,C13 kind=statement
//@ ob fmindex_nosampling entry=h_fm_nosampling tier=C props=C16,C05 kind=statement unwind=1
#define DUPMAX 100000
size_t gk;   /* ghost index */
//@ structs
//@ lowered
static IteratorDictIDDuplicates *mk_dup(size_t n) {
  IteratorDictIDDuplicates *it = malloc(sizeof(IteratorDictIDDuplicates)); __CPROVER_assume(it != NULL);
  it->ids = malloc((n + 1) * sizeof(size_t)); __CPROVER_assume(it->ids != NULL);
  return it;
}
void h_dup_ctor(void) { IteratorDictIDDuplicates it; size_t *ids; size_t n; IteratorDictIDDuplicates__ctor__size_t_p__size_t(&it, ids, n); REACH_POINT(); }
void h_dup_next(void) {
  size_t in_n; __CPROVER_assume(in_n <= DUPMAX);
  IteratorDictIDDuplicates *it = mk_dup(in_n);
  __CPROVER_assume(it->scanneable == in_n);
  IteratorDictIDDuplicates__next(it);
  REACH_POINT();
}
/* lemma DUP.once (from the contract of next alone): on a non-decreasing array of IDs >= 1 terminated by 0, two
 * consecutive calls return strictly increasing IDs -- every ID at most once however often it occurs -- and the
 * iterator never moves past the terminator */
void h_dup_once(void) {
  size_t in_n; __CPROVER_assume(in_n >= 2 && in_n <= DUPMAX);
  IteratorDictIDDuplicates *it = mk_dup(in_n);
  it->scanneable = in_n; size_t in_p; __CPROVER_assume(in_p < in_n); it->processed = in_p;
  __CPROVER_assume(it->ids[in_n] == 0 && it->ids[in_p] >= 1);
  size_t a = IteratorDictIDDuplicates__next(it);
  if (it->processed < it->scanneable) {       /* hasNext */
    size_t q = it->processed;
    __CPROVER_assume(it->ids[q] >= it->ids[q - 1]);   /* sortedness, instantiated where it is used */
    __CPROVER_assume(it->ids[q] >= 1);
    size_t b = IteratorDictIDDuplicates__next(it);
    __CPROVER_assert(b > a, "DUP.once: IDs are returned in strictly ascending order, each once");
  }
  __CPROVER_assert(it->processed <= it->scanneable, "DUP.once: never past the result array's terminator");
  REACH_POINT();
}
/* C16/C05: an FM-index built without BWT sampling answers substring queries with a null iterator, touching nothing */
void h_fm_nosampling(void) {
  StringDictionaryFMINDEX *d = malloc(sizeof(StringDictionaryFMINDEX)); __CPROVER_assume(d != NULL);
  __CPROVER_assume(d->BWTsampling == 0);
  uchar *s; uint l;
  __CPROVER_assert(StringDictionaryFMINDEX__locateSubstr(d, s, l) == NULL, "C16: locateSubstr without sampling returns NULL");
  __CPROVER_assert(StringDictionaryFMINDEX__extractSubstr(d, s, l) == NULL, "C16: extractSubstr without sampling returns NULL");
  REACH_POINT();
}

//@ unit iters
//@ autostub
//@ tu StringDictionaryFMINDEX.cpp
//@ class IteratorDictID
//@ class IteratorDictIDDuplicates
//@ class IteratorDictIDContiguous
//@ class StringDictionary
//@ class StringDictionaryFMINDEX
//@ fn IteratorDictIDDuplicates::ctor
//@   requires(__CPROVER_w_ok(this, sizeof(*this)))
//@   ensures(this->ids == ids && this->scanneable == scanneable && this->processed == 0)
//@   assigns(__CPROVER_object_whole(this))
//@ fn IteratorDictIDDuplicates::next
//@   requires(__CPROVER_rw_ok(this, sizeof(*this)) && this->scanneable <= DUPMAX && this->processed < this->scanneable)
//@   requires(__CPROVER_r_ok(this->ids, (this->scanneable + 1) * sizeof(size_t)) && !__CPROVER_same_object(this->ids, this))
//@   requires(this->ids[this->scanneable] == 0 && this->ids[this->processed] >= 1)
//@   ensures(RET == this->ids[OLD(this->processed)])
//@   ensures(this->processed > OLD(this->processed) && this->processed <= this->scanneable)
//@   ensures(this->ids[this->processed - 1] == RET && this->ids[this->processed] != RET)
//@   ensures((gk >= OLD(this->processed) && gk < this->processed) ==> this->ids[gk] == RET)
//@   assigns(this->processed)
//@   loop 1: assigns(this->processed)
//@   loop 1: invariant(this->processed >= __CPROVER_loop_entry(this->processed) && this->processed < this->scanneable && next >= 1 && this->ids[this->processed] == next)
//@   loop 1: invariant((gk >= __CPROVER_loop_entry(this->processed) && gk <= this->processed) ==> this->ids[gk] == next)
//@   loop 1: decreases(this->scanneable - this->processed)
//@ fn StringDictionaryFMINDEX::locate
//@   requires(__CPROVER_r_ok(this, sizeof(*this)) && strLen <= 100000 && (strLen == 0 || __CPROVER_r_ok(str, strLen)))
//@   ensures(1)
//@   assigns(g_ext_i)
//@   loop 1: assigns(i, __CPROVER_object_whole(n_s))
//@   loop 1: invariant(1 <= i && i <= (size_t)strLen + 1 && __CPROVER_same_object(n_s, __CPROVER_loop_entry(n_s)) && OFFS(n_s) == 0)
//@   loop 1: decreases((size_t)strLen + 1 - i)
//@ fn StringDictionaryFMINDEX::extract
//@ fn StringDictionaryFMINDEX::locateSubstr
//@ fn StringDictionaryFMINDEX::extractSubstr
//@ ob dup_ctor entry=h_dup_ctor enforce=IteratorDictIDDuplicates__ctor__size_t_p__size_t tier=C props=C05,C13 kind=statement
//@ ob dup_next entry=h_dup_next enforce=IteratorDictIDDuplicates__next loops tier=P props=C05,C13,C07 kind=statement
//@ ob dup_once entry=h_dup_once replace=IteratorDictIDDuplicates__next tier=C props=C05,C13 kind=statement
//@ ob fmindex_locate_frame entry=h_fm_locate enforce=StringDictionaryFMINDEX__locate replace=SSA__locate_id loops tier=P props=C14,C07 kind=statement
//@ ob fmindex_id_remap entry=h_fm_remap tier=C props=C03,C01 kind=statement unwind=1
//@ ob fmindex_nosampling entry=h_fm_nosampling tier=C props=C16,C05 kind=statement unwind=1
#define DUPMAX 100000
size_t gk;   /* ghost index */
size_t g_ext_i;   /* ghost: the internal text position extract asks the FM-index for */
typedef struct SSA SSA;
//@ structs
/* TRUSTED: SSA::locate_id / extract_id are outside the reach of contracts (FM-index internals): locate_id returns some value and writes nothing the caller sees; extract_id's argument is recorded */
uint SSA__locate_id(SSA *this, uchar *pattern, uint m) __CPROVER_requires(__CPROVER_r_ok(pattern, m)) __CPROVER_ensures(1) __CPROVER_assigns();
uchar *SSA__extract_id(SSA *this, uint id, uint *strLen, uint32_t maxlength);
//@ lowered
uchar *SSA__extract_id(SSA *this, uint id, uint *strLen, uint32_t maxlength) { g_ext_i = id; return (uchar *)0; }
void h_fm_locate(void) {
  StringDictionaryFMINDEX *d = malloc(sizeof(StringDictionaryFMINDEX)); __CPROVER_assume(d != NULL);
  uint in_len; __CPROVER_assume(in_len <= 100000); uchar *s = malloc(in_len ? in_len : 1); __CPROVER_assume(s != NULL);
  StringDictionaryFMINDEX__locate(d, s, in_len);
  REACH_POINT();
}
/* C03/C01: the FM-index ID remapping used by extract (n -> 2, id -> id+3) is injective on [1,n] */
void h_fm_remap(void) {
  StringDictionaryFMINDEX *d = malloc(sizeof(StringDictionaryFMINDEX)); __CPROVER_assume(d != NULL);
  __CPROVER_assume(d->elements >= 1 && d->elements < ((uint64_t)1 << 31));
  size_t in_a, in_b; __CPROVER_assume(in_a >= 1 && in_a <= d->elements && in_b >= 1 && in_b <= d->elements && in_a != in_b);
  uint l;
  StringDictionaryFMINDEX__extract(d, in_a, &l); size_t ia = g_ext_i;
  StringDictionaryFMINDEX__extract(d, in_b, &l); size_t ib = g_ext_i;
  __CPROVER_assert(ia != ib, "C03: distinct IDs are extracted from distinct text positions");
  __CPROVER_assert((ia == 2 || (ia >= 4 && ia <= d->elements + 2)), "C03: image of the ID remapping is {2} u [4, n+2]");
  REACH_POINT();
}
static IteratorDictIDDuplicates *mk_dup(size_t n) {
  IteratorDictIDDuplicates *it = malloc(sizeof(IteratorDictIDDuplicates)); __CPROVER_assume(it != NULL);
  it->ids = malloc((n + 1) * sizeof(size_t)); __CPROVER_assume(it->ids != NULL);
  return it;
}
void h_dup_ctor(void) { IteratorDictIDDuplicates it; size_t *ids; size_t n; IteratorDictIDDuplicates__ctor__size_t_p__size_t(&it, ids, n); REACH_POINT(); }
void h_dup_next(void) {
  size_t in_n; __CPROVER_assume(in_n <= DUPMAX);
  IteratorDictIDDuplicates *it = mk_dup(in_n);
  __CPROVER_assume(it->scanneable == in_n);
  IteratorDictIDDuplicates__next(it);
  REACH_POINT();
}
/* lemma DUP.once (from the contract of next alone): on a non-decreasing array of IDs >= 1 terminated by 0, two
 * consecutive calls return strictly increasing IDs -- every ID at most once however often it occurs -- and the
 * iterator never moves past the terminator */
void h_dup_once(void) {
  size_t in_n; __CPROVER_assume(in_n >= 2 && in_n <= DUPMAX);
  IteratorDictIDDuplicates *it = mk_dup(in_n);
  it->scanneable = in_n; size_t in_p; __CPROVER_assume(in_p < in_n); it->processed = in_p;
  __CPROVER_assume(it->ids[in_n] == 0 && it->ids[in_p] >= 1);
  size_t a = IteratorDictIDDuplicates__next(it);
  if (it->processed < it->scanneable) {       /* hasNext */
    size_t q = it->processed;
    __CPROVER_assume(it->ids[q] >= it->ids[q - 1]);   /* sortedness, instantiated where it is used */
    __CPROVER_assume(it->ids[q] >= 1);
    size_t b = IteratorDictIDDuplicates__next(it);
    __CPROVER_assert(b > a, "DUP.once: IDs are returned in strictly ascending order, each once");
  }
  __CPROVER_assert(it->processed <= it->scanneable, "DUP.once: never past the result array's terminator");
  REACH_POINT();
}
/* C16/C05: an FM-index built without BWT sampling answers substring queries with a null iterator, touching nothing */
void h_fm_nosampling(void) {
  StringDictionaryFMINDEX *d = malloc(sizeof(StringDictionaryFMINDEX)); __CPROVER_assume(d != NULL);
  __CPROVER_assume(d->BWTsampling == 0);
  uchar *s; uint l;
  __CPROVER_assert(StringDictionaryFMINDEX__locateSubstr(d, s, l) == NULL, "C16: locateSubstr without sampling returns NULL");
  __CPROVER_assert(StringDictionaryFMINDEX__extractSubstr(d, s, l) == NULL, "C16: extractSubstr without sampling returns NULL");
  REACH_POINT();
}

//@ unit vbyte
//@ tu utils/VByte.cpp
//@ class VByte
//@ fn VByte::encode
//@   requires(__CPROVER_w_ok(r, VB_LEN(c)))
//@   ensures(RET == VB_LEN(c))
//@   ensures(RET > 1 ==> r[0] == VB_GRP(c, 0))
//@   ensures(RET > 2 ==> r[1] == VB_GRP(c, 1))
//@   ensures(RET > 3 ==> r[2] == VB_GRP(c, 2))
//@   ensures(RET > 4 ==> r[3] == VB_GRP(c, 3))
//@   ensures(r[RET - 1] == (uchar)(VB_GRP(c, RET - 1) | 0x80))
//@   assigns(__CPROVER_object_upto(r, VB_LEN(c)))
//@ fn VByte::decode
//@   requires(__CPROVER_w_ok(c, sizeof(uint)))
//@   requires(__CPROVER_r_ok(r, 1) && VB_TERMINATED(r, OBJSZ(r) - OFFS(r)))
//@   ensures(RET == VB_TERMPOS(r) + 1)
//@   ensures(VB_GRP(*c, 0) == (r[0] & 127))
//@   ensures(RET > 1 ==> VB_GRP(*c, 1) == (r[1] & 127))
//@   ensures(RET > 2 ==> VB_GRP(*c, 2) == (r[2] & 127))
//@   ensures(RET > 3 ==> VB_GRP(*c, 3) == (r[3] & 127))
//@   ensures(RET > 4 ==> VB_GRP(*c, 4) == (r[4] & 127))
//@   ensures(RET < 5 ==> (*c >> (7 * RET)) == 0)
//@   assigns(*c)
//@ ob vb_encode entry=h_enc enforce=VByte__encode unwind=6 tier=C props=C17,C01,C07 kind=statement replay=vbyte
//@ ob vb_decode entry=h_dec enforce=VByte__decode unwind=6 tier=C props=C17,C01,C07 kind=statement replay=vbyte
//@ ob vb_roundtrip entry=h_rt replace=VByte__encode,VByte__decode tier=C props=C17,C01 kind=statement
/* number of bytes of the variable-byte code of c, and its j-th 7-bit group */
#define VB_LEN(c) (1u + ((c) > 127u) + ((c) > 16383u) + ((c) > 2097151u) + ((c) > 268435455u))
#define VB_GRP(c, j) (((c) >> (7 * (j))) & 127u)
/* a terminator byte (bit 7 set) occurs among the first min(5,n) bytes; a 5th byte carries only 4 value bits */
#define VB_TERMINATED(r, n) (((r)[0] & 0x80) || ((n) >= 2 && (((r)[1] & 0x80) || ((n) >= 3 && (((r)[2] & 0x80) || \
      ((n) >= 4 && (((r)[3] & 0x80) || ((n) >= 5 && ((r)[4] & 0x80) && ((r)[4] & 0x70) == 0))))))))
#define VB_TERMPOS(r) (((r)[0] & 0x80) ? 0u : ((r)[1] & 0x80) ? 1u : ((r)[2] & 0x80) ? 2u : ((r)[3] & 0x80) ? 3u : 4u)
//@ lowered
void h_enc(void) {
  uint c; uchar buf[8]; unsigned k;
  __CPROVER_assume(k < 8);
  VByte__encode(c, buf + k);
  REACH_POINT();
}
void h_dec(void) {
  uint c; uchar buf[8]; unsigned k;
  __CPROVER_assume(k < 8);
  VByte__decode(&c, buf + k);
  REACH_POINT();
}
/* lemma VB.rt: decode(encode(x)) == x with equal byte counts, from the two contracts alone */
void h_rt(void) {
  uint x, y; uchar buf[5];
  uint n = VByte__encode(x, buf);
  uint m = VByte__decode(&y, buf);
  __CPROVER_assert(m == n, "VB.rt: same byte count in both directions");
  __CPROVER_assert(y == x, "VB.rt: decoded value equals encoded value");
  REACH_POINT();
}

//@ unit kinds
//@ autostub
//@ global PFC RPFC HTFC HHTFC RPHTFC RPDAC FMINDEX DXBW HASHHF HASHUFFDAC HASHRPF HASHRPDAC
//@ class StringDictionary tu=StringDictionaryRPFC.cpp
//@ class ChunkScan tu=StringDictionaryHTFC.cpp
//@ class SSA tu=StringDictionaryFMINDEX.cpp
//@ class RePair tu=StringDictionaryRPDAC.cpp
//@ class XBW tu=StringDictionaryXBW.cpp
//@ tu StringDictionaryRPFC.cpp
//@ class StringDictionaryRPFC
//@ tu StringDictionaryHTFC.cpp
//@ class StringDictionaryHTFC
//@ tu StringDictionaryHHTFC.cpp
//@ class StringDictionaryHHTFC
//@ tu StringDictionaryRPHTFC.cpp
//@ class StringDictionaryRPHTFC
//@ tu StringDictionaryRPDAC.cpp
//@ class StringDictionaryRPDAC
//@ tu StringDictionaryHASHHF.cpp
//@ class StringDictionaryHASHHF
//@ tu StringDictionaryHASHRPF.cpp
//@ class StringDictionaryHASHRPF
//@ tu StringDictionaryHASHUFFDAC.cpp
//@ class StringDictionaryHASHUFFDAC
//@ tu StringDictionaryHASHRPDAC.cpp
//@ class StringDictionaryHASHRPDAC
//@ tu StringDictionaryFMINDEX.cpp
//@ class StringDictionaryFMINDEX
//@ tu StringDictionaryXBW.cpp
//@ class StringDictionaryXBW
//@ tu StringDictionaryRPFC.cpp
//@ fn StringDictionaryRPFC::extract
//@   requires(__CPROVER_r_ok(this, sizeof(*this)) && __CPROVER_w_ok(strLen, sizeof(uint)))
//@   ensures((id == 0 || id > this->elements) ==> (RET == NULL && *strLen == 0))
//@   assigns(*strLen)
//@ fn StringDictionaryRPFC::locateSubstr
//@   requires(1)
//@   ensures(RET == NULL)
//@   assigns()
//@ fn StringDictionaryRPFC::extractSubstr
//@   requires(1)
//@   ensures(RET == NULL)
//@   assigns()
//@ tu StringDictionaryHTFC.cpp
//@ fn StringDictionaryHTFC::extract
//@   requires(__CPROVER_r_ok(this, sizeof(*this)) && __CPROVER_w_ok(strLen, sizeof(uint)))
//@   ensures((id == 0 || id > this->elements) ==> (RET == NULL && *strLen == 0))
//@   assigns(*strLen)
//@ fn StringDictionaryHTFC::locateSubstr
//@   requires(1)
//@   ensures(RET == NULL)
//@   assigns()
//@ fn StringDictionaryHTFC::extractSubstr
//@   requires(1)
//@   ensures(RET == NULL)
//@   assigns()
//@ tu StringDictionaryHHTFC.cpp
//@ fn StringDictionaryHHTFC::extract
//@   requires(__CPROVER_r_ok(this, sizeof(*this)) && __CPROVER_w_ok(strLen, sizeof(uint)))
//@   ensures((id == 0 || id > this->elements) ==> (RET == NULL && *strLen == 0))
//@   assigns(*strLen)
//@ fn StringDictionaryHHTFC::locateSubstr
//@   requires(1)
//@   ensures(RET == NULL)
//@   assigns()
//@ fn StringDictionaryHHTFC::extractSubstr
//@   requires(1)
//@   ensures(RET == NULL)
//@   assigns()
//@ tu StringDictionaryRPHTFC.cpp
//@ fn StringDictionaryRPHTFC::extract
//@   requires(__CPROVER_r_ok(this, sizeof(*this)) && __CPROVER_w_ok(strLen, sizeof(uint)))
//@   ensures((id == 0 || id > this->elements) ==> (RET == NULL && *strLen == 0))
//@   assigns(*strLen)
//@ fn StringDictionaryRPHTFC::locateSubstr
//@   requires(1)
//@   ensures(RET == NULL)
//@   assigns()
//@ fn StringDictionaryRPHTFC::extractSubstr
//@   requires(1)
//@   ensures(RET == NULL)
//@   assigns()
//@ tu StringDictionaryRPDAC.cpp
//@ fn StringDictionaryRPDAC::extract
//@   requires(__CPROVER_r_ok(this, sizeof(*this)) && __CPROVER_w_ok(strLen, sizeof(uint)))
//@   ensures((id == 0 || id > this->elements) ==> (RET == NULL && *strLen == 0))
//@   assigns(*strLen)
//@ fn StringDictionaryRPDAC::locateSubstr
//@   requires(1)
//@   ensures(RET == NULL)
//@   assigns()
//@ fn StringDictionaryRPDAC::extractSubstr
//@   requires(1)
//@   ensures(RET == NULL)
//@   assigns()
//@ tu StringDictionaryHASHHF.cpp
//@ fn StringDictionaryHASHHF::extract
//@   requires(__CPROVER_r_ok(this, sizeof(*this)) && __CPROVER_w_ok(strLen, sizeof(uint)))
//@   ensures((id == 0 || id > this->elements) ==> (RET == NULL && *strLen == 0))
//@   assigns(*strLen)
//@ fn StringDictionaryHASHHF::locatePrefix
//@   requires(1)
//@   ensures(RET == NULL)
//@   assigns()
//@ fn StringDictionaryHASHHF::locateSubstr
//@   requires(1)
//@   ensures(RET == NULL)
//@   assigns()
//@ fn StringDictionaryHASHHF::extractPrefix
//@   requires(1)
//@   ensures(RET == NULL)
//@   assigns()
//@ fn StringDictionaryHASHHF::extractSubstr
//@   requires(1)
//@   ensures(RET == NULL)
//@   assigns()
//@ tu StringDictionaryHASHRPF.cpp
//@ fn StringDictionaryHASHRPF::extract
//@   requires(__CPROVER_r_ok(this, sizeof(*this)) && __CPROVER_w_ok(strLen, sizeof(uint)))
//@   ensures((id == 0 || id > this->elements) ==> (RET == NULL && *strLen == 0))
//@   assigns(*strLen)
//@ fn StringDictionaryHASHRPF::locatePrefix
//@   requires(1)
//@   ensures(RET == NULL)
//@   assigns()
//@ fn StringDictionaryHASHRPF::locateSubstr
//@   requires(1)
//@   ensures(RET == NULL)
//@   assigns()
//@ fn StringDictionaryHASHRPF::extractPrefix
//@   requires(1)
//@   ensures(RET == NULL)
//@   assigns()
//@ fn StringDictionaryHASHRPF::extractSubstr
//@   requires(1)
//@   ensures(RET == NULL)
//@   assigns()
//@ tu StringDictionaryHASHUFFDAC.cpp
//@ fn StringDictionaryHASHUFFDAC::extract
//@   requires(__CPROVER_r_ok(this, sizeof(*this)) && __CPROVER_w_ok(strLen, sizeof(uint)))
//@   ensures((id == 0 || id > this->elements) ==> (RET == NULL && *strLen == 0))
//@   assigns(*strLen)
//@ fn StringDictionaryHASHUFFDAC::locatePrefix
//@   requires(1)
//@   ensures(RET == NULL)
//@   assigns()
//@ fn StringDictionaryHASHUFFDAC::locateSubstr
//@   requires(1)
//@   ensures(RET == NULL)
//@   assigns()
//@ fn StringDictionaryHASHUFFDAC::extractPrefix
//@   requires(1)
//@   ensures(RET == NULL)
//@   assigns()
//@ fn StringDictionaryHASHUFFDAC::extractSubstr
//@   requires(1)
//@   ensures(RET == NULL)
//@   assigns()
//@ tu StringDictionaryHASHRPDAC.cpp
//@ fn StringDictionaryHASHRPDAC::extract
//@   requires(__CPROVER_r_ok(this, sizeof(*this)) && __CPROVER_w_ok(strLen, sizeof(uint)))
//@   ensures((id == 0 || id > this->elements) ==> (RET == NULL && *strLen == 0))
//@   assigns(*strLen)
//@ fn StringDictionaryHASHRPDAC::locatePrefix
//@   requires(1)
//@   ensures(RET == NULL)
//@   assigns()
//@ fn StringDictionaryHASHRPDAC::locateSubstr
//@   requires(1)
//@   ensures(RET == NULL)
//@   assigns()
//@ fn StringDictionaryHASHRPDAC::extractPrefix
//@   requires(1)
//@   ensures(RET == NULL)
//@   assigns()
//@ fn StringDictionaryHASHRPDAC::extractSubstr
//@   requires(1)
//@   ensures(RET == NULL)
//@   assigns()
//@ tu StringDictionaryFMINDEX.cpp
//@ fn StringDictionaryFMINDEX::extract
//@   requires(__CPROVER_r_ok(this, sizeof(*this)) && __CPROVER_w_ok(strLen, sizeof(uint)))
//@   ensures((id == 0 || id > this->elements) ==> (RET == NULL && *strLen == 0))
//@   assigns(*strLen)
//@ tu StringDictionaryXBW.cpp
//@ fn StringDictionaryXBW::extract
//@   requires(__CPROVER_r_ok(this, sizeof(*this)) && __CPROVER_w_ok(strLen, sizeof(uint)))
//@   ensures((id == 0 || id > this->elements) ==> (RET == NULL && *strLen == 0))
//@   assigns(*strLen)
//@ fn StringDictionaryXBW::extractTable
//@   requires(1)
//@   ensures(RET == NULL)
//@   assigns()
//@ tu StringDictionaryRPFC.cpp
//@ fn StringDictionaryRPFC::load
//@ tu StringDictionaryHTFC.cpp
//@ fn StringDictionaryHTFC::load
//@ tu StringDictionaryHHTFC.cpp
//@ fn StringDictionaryHHTFC::load
//@ tu StringDictionaryRPHTFC.cpp
//@ fn StringDictionaryRPHTFC::load
//@ tu StringDictionaryRPDAC.cpp
//@ fn StringDictionaryRPDAC::load
//@ tu StringDictionaryHASHHF.cpp
//@ fn StringDictionaryHASHHF::load
//@ tu StringDictionaryHASHRPF.cpp
//@ fn StringDictionaryHASHRPF::load
//@ tu StringDictionaryHASHUFFDAC.cpp
//@ fn StringDictionaryHASHUFFDAC::load
//@ tu StringDictionaryHASHRPDAC.cpp
//@ fn StringDictionaryHASHRPDAC::load
//@ tu StringDictionaryFMINDEX.cpp
//@ fn StringDictionaryFMINDEX::load
//@ tu StringDictionaryXBW.cpp
//@ fn StringDictionaryXBW::load
//@ ob wrongtag_RPFC entry=h_wrongtag_RPFC  unwind=6 tier=C props=C16,C06 kind=statement
//@ ob wrongtag_HTFC entry=h_wrongtag_HTFC  unwind=6 tier=C props=C16,C06 kind=statement
//@ ob wrongtag_HHTFC entry=h_wrongtag_HHTFC  unwind=6 tier=C props=C16,C06 kind=statement
//@ ob wrongtag_RPHTFC entry=h_wrongtag_RPHTFC  unwind=6 tier=C props=C16,C06 kind=statement
//@ ob wrongtag_RPDAC entry=h_wrongtag_RPDAC  unwind=6 tier=C props=C16,C06 kind=statement
//@ ob wrongtag_HASHHF entry=h_wrongtag_HASHHF  unwind=6 tier=C props=C16,C06 kind=statement
//@ ob wrongtag_HASHRPF entry=h_wrongtag_HASHRPF  unwind=6 tier=C props=C16,C06 kind=statement
//@ ob wrongtag_HASHUFFDAC entry=h_wrongtag_HASHUFFDAC  unwind=6 tier=C props=C16,C06 kind=statement
//@ ob wrongtag_HASHRPDAC entry=h_wrongtag_HASHRPDAC  unwind=6 tier=C props=C16,C06 kind=statement
//@ ob wrongtag_FMINDEX entry=h_wrongtag_FMINDEX  unwind=6 tier=C props=C16,C06 kind=statement
//@ ob wrongtag_XBW entry=h_wrongtag_XBW  unwind=6 tier=C props=C16,C06 kind=statement
//@ ob guard_RPFC entry=h_guard_RPFC enforce=StringDictionaryRPFC__extract unwind=1 tier=C props=C02,C16,C07,C14 kind=statement
//@ ob stub_RPFC_locateSubstr entry=h_stub_RPFC_locateSubstr enforce=StringDictionaryRPFC__locateSubstr unwind=1 tier=C props=C16,C14 kind=statement
//@ ob stub_RPFC_extractSubstr entry=h_stub_RPFC_extractSubstr enforce=StringDictionaryRPFC__extractSubstr unwind=1 tier=C props=C16,C14 kind=statement
//@ ob guard_HTFC entry=h_guard_HTFC enforce=StringDictionaryHTFC__extract unwind=1 tier=C props=C02,C16,C07,C14 kind=statement
//@ ob stub_HTFC_locateSubstr entry=h_stub_HTFC_locateSubstr enforce=StringDictionaryHTFC__locateSubstr unwind=1 tier=C props=C16,C14 kind=statement
//@ ob stub_HTFC_extractSubstr entry=h_stub_HTFC_extractSubstr enforce=StringDictionaryHTFC__extractSubstr unwind=1 tier=C props=C16,C14 kind=statement
//@ ob guard_HHTFC entry=h_guard_HHTFC enforce=StringDictionaryHHTFC__extract unwind=1 tier=C props=C02,C16,C07,C14 kind=statement
//@ ob stub_HHTFC_locateSubstr entry=h_stub_HHTFC_locateSubstr enforce=StringDictionaryHHTFC__locateSubstr unwind=1 tier=C props=C16,C14 kind=statement
//@ ob stub_HHTFC_extractSubstr entry=h_stub_HHTFC_extractSubstr enforce=StringDictionaryHHTFC__extractSubstr unwind=1 tier=C props=C16,C14 kind=statement
//@ ob guard_RPHTFC entry=h_guard_RPHTFC enforce=StringDictionaryRPHTFC__extract unwind=1 tier=C props=C02,C16,C07,C14 kind=statement
//@ ob stub_RPHTFC_locateSubstr entry=h_stub_RPHTFC_locateSubstr enforce=StringDictionaryRPHTFC__locateSubstr unwind=1 tier=C props=C16,C14 kind=statement
//@ ob stub_RPHTFC_extractSubstr entry=h_stub_RPHTFC_extractSubstr enforce=StringDictionaryRPHTFC__extractSubstr unwind=1 tier=C props=C16,C14 kind=statement
//@ ob guard_RPDAC entry=h_guard_RPDAC enforce=StringDictionaryRPDAC__extract unwind=1 tier=C props=C02,C16,C07,C14 kind=statement
//@ ob stub_RPDAC_locateSubstr entry=h_stub_RPDAC_locateSubstr enforce=StringDictionaryRPDAC__locateSubstr unwind=1 tier=C props=C16,C14 kind=statement
//@ ob stub_RPDAC_extractSubstr entry=h_stub_RPDAC_extractSubstr enforce=StringDictionaryRPDAC__extractSubstr unwind=1 tier=C props=C16,C14 kind=statement
//@ ob guard_HASHHF entry=h_guard_HASHHF enforce=StringDictionaryHASHHF__extract unwind=1 tier=C props=C02,C16,C07,C14 kind=statement
//@ ob stub_HASHHF_locatePrefix entry=h_stub_HASHHF_locatePrefix enforce=StringDictionaryHASHHF__locatePrefix unwind=1 tier=C props=C16,C14 kind=statement
//@ ob stub_HASHHF_locateSubstr entry=h_stub_HASHHF_locateSubstr enforce=StringDictionaryHASHHF__locateSubstr unwind=1 tier=C props=C16,C14 kind=statement
//@ ob stub_HASHHF_extractPrefix entry=h_stub_HASHHF_extractPrefix enforce=StringDictionaryHASHHF__extractPrefix unwind=1 tier=C props=C16,C14 kind=statement
//@ ob stub_HASHHF_extractSubstr entry=h_stub_HASHHF_extractSubstr enforce=StringDictionaryHASHHF__extractSubstr unwind=1 tier=C props=C16,C14 kind=statement
//@ ob guard_HASHRPF entry=h_guard_HASHRPF enforce=StringDictionaryHASHRPF__extract unwind=1 tier=C props=C02,C16,C07,C14 kind=statement
//@ ob stub_HASHRPF_locatePrefix entry=h_stub_HASHRPF_locatePrefix enforce=StringDictionaryHASHRPF__locatePrefix unwind=1 tier=C props=C16,C14 kind=statement
//@ ob stub_HASHRPF_locateSubstr entry=h_stub_HASHRPF_locateSubstr enforce=StringDictionaryHASHRPF__locateSubstr unwind=1 tier=C props=C16,C14 kind=statement
//@ ob stub_HASHRPF_extractPrefix entry=h_stub_HASHRPF_extractPrefix enforce=StringDictionaryHASHRPF__extractPrefix unwind=1 tier=C props=C16,C14 kind=statement
//@ ob stub_HASHRPF_extractSubstr entry=h_stub_HASHRPF_extractSubstr enforce=StringDictionaryHASHRPF__extractSubstr unwind=1 tier=C props=C16,C14 kind=statement
//@ ob guard_HASHUFFDAC entry=h_guard_HASHUFFDAC enforce=StringDictionaryHASHUFFDAC__extract unwind=1 tier=C props=C02,C16,C07,C14 kind=statement
//@ ob stub_HASHUFFDAC_locatePrefix entry=h_stub_HASHUFFDAC_locatePrefix enforce=StringDictionaryHASHUFFDAC__locatePrefix unwind=1 tier=C props=C16,C14 kind=statement
//@ ob stub_HASHUFFDAC_locateSubstr entry=h_stub_HASHUFFDAC_locateSubstr enforce=StringDictionaryHASHUFFDAC__locateSubstr unwind=1 tier=C props=C16,C14 kind=statement
//@ ob stub_HASHUFFDAC_extractPrefix entry=h_stub_HASHUFFDAC_extractPrefix enforce=StringDictionaryHASHUFFDAC__extractPrefix unwind=1 tier=C props=C16,C14 kind=statement
//@ ob stub_HASHUFFDAC_extractSubstr entry=h_stub_HASHUFFDAC_extractSubstr enforce=StringDictionaryHASHUFFDAC__extractSubstr unwind=1 tier=C props=C16,C14 kind=statement
//@ ob guard_HASHRPDAC entry=h_guard_HASHRPDAC enforce=StringDictionaryHASHRPDAC__extract unwind=1 tier=C props=C02,C16,C07,C14 kind=statement
//@ ob stub_HASHRPDAC_locatePrefix entry=h_stub_HASHRPDAC_locatePrefix enforce=StringDictionaryHASHRPDAC__locatePrefix unwind=1 tier=C props=C16,C14 kind=statement
//@ ob stub_HASHRPDAC_locateSubstr entry=h_stub_HASHRPDAC_locateSubstr enforce=StringDictionaryHASHRPDAC__locateSubstr unwind=1 tier=C props=C16,C14 kind=statement
//@ ob stub_HASHRPDAC_extractPrefix entry=h_stub_HASHRPDAC_extractPrefix enforce=StringDictionaryHASHRPDAC__extractPrefix unwind=1 tier=C props=C16,C14 kind=statement
//@ ob stub_HASHRPDAC_extractSubstr entry=h_stub_HASHRPDAC_extractSubstr enforce=StringDictionaryHASHRPDAC__extractSubstr unwind=1 tier=C props=C16,C14 kind=statement
//@ ob guard_FMINDEX entry=h_guard_FMINDEX enforce=StringDictionaryFMINDEX__extract unwind=1 tier=C props=C02,C16,C07,C14 kind=statement
//@ ob guard_XBW entry=h_guard_XBW enforce=StringDictionaryXBW__extract unwind=1 tier=C props=C02,C16,C07,C14 kind=statement
//@ ob stub_XBW_extractTable entry=h_stub_XBW_extractTable enforce=StringDictionaryXBW__extractTable unwind=1 tier=C props=C16,C14 kind=statement
#define VSTREAM_NO_ARRAY_LOAD
#include "vstream.h"
typedef struct Codeword Codeword;
//@ structs
static inline Codeword *loadValue__Codeword__2(struct vstream *in, const size_t len) { __CPROVER_assert(0, "payload read reached in a slice that must return before it"); __CPROVER_assume(0); return 0; }
//@ lowered
void h_wrongtag_RPFC(void) { static uchar buf[64]; struct vstream in; in.buf = buf; in.pos = 0; in.cap = 64; uint32_t in_tag; uint in_opt; __CPROVER_assume(in_tag != RPFC); buf[0] = in_tag & 255; buf[1] = (in_tag >> 8) & 255; buf[2] = (in_tag >> 16) & 255; buf[3] = (in_tag >> 24) & 255; __CPROVER_assert(StringDictionaryRPFC__load(&in) == NULL, "C16: the kind's loader returns NULL for an image with another type tag"); REACH_POINT(); }
void h_wrongtag_HTFC(void) { static uchar buf[64]; struct vstream in; in.buf = buf; in.pos = 0; in.cap = 64; uint32_t in_tag; uint in_opt; __CPROVER_assume(in_tag != HTFC); buf[0] = in_tag & 255; buf[1] = (in_tag >> 8) & 255; buf[2] = (in_tag >> 16) & 255; buf[3] = (in_tag >> 24) & 255; __CPROVER_assert(StringDictionaryHTFC__load(&in) == NULL, "C16: the kind's loader returns NULL for an image with another type tag"); REACH_POINT(); }
void h_wrongtag_HHTFC(void) { static uchar buf[64]; struct vstream in; in.buf = buf; in.pos = 0; in.cap = 64; uint32_t in_tag; uint in_opt; __CPROVER_assume(in_tag != HHTFC); buf[0] = in_tag & 255; buf[1] = (in_tag >> 8) & 255; buf[2] = (in_tag >> 16) & 255; buf[3] = (in_tag >> 24) & 255; __CPROVER_assert(StringDictionaryHHTFC__load(&in) == NULL, "C16: the kind's loader returns NULL for an image with another type tag"); REACH_POINT(); }
void h_wrongtag_RPHTFC(void) { static uchar buf[64]; struct vstream in; in.buf = buf; in.pos = 0; in.cap = 64; uint32_t in_tag; uint in_opt; __CPROVER_assume(in_tag != RPHTFC); buf[0] = in_tag & 255; buf[1] = (in_tag >> 8) & 255; buf[2] = (in_tag >> 16) & 255; buf[3] = (in_tag >> 24) & 255; __CPROVER_assert(StringDictionaryRPHTFC__load(&in) == NULL, "C16: the kind's loader returns NULL for an image with another type tag"); REACH_POINT(); }
void h_wrongtag_RPDAC(void) { static uchar buf[64]; struct vstream in; in.buf = buf; in.pos = 0; in.cap = 64; uint32_t in_tag; uint in_opt; __CPROVER_assume(in_tag != RPDAC); buf[0] = in_tag & 255; buf[1] = (in_tag >> 8) & 255; buf[2] = (in_tag >> 16) & 255; buf[3] = (in_tag >> 24) & 255; __CPROVER_assert(StringDictionaryRPDAC__load(&in) == NULL, "C16: the kind's loader returns NULL for an image with another type tag"); REACH_POINT(); }
void h_wrongtag_HASHHF(void) { static uchar buf[64]; struct vstream in; in.buf = buf; in.pos = 0; in.cap = 64; uint32_t in_tag; uint in_opt; __CPROVER_assume(in_tag != HASHHF); buf[0] = in_tag & 255; buf[1] = (in_tag >> 8) & 255; buf[2] = (in_tag >> 16) & 255; buf[3] = (in_tag >> 24) & 255; __CPROVER_assert(StringDictionaryHASHHF__load(&in, in_opt) == NULL, "C16: the kind's loader returns NULL for an image with another type tag"); REACH_POINT(); }
void h_wrongtag_HASHRPF(void) { static uchar buf[64]; struct vstream in; in.buf = buf; in.pos = 0; in.cap = 64; uint32_t in_tag; uint in_opt; __CPROVER_assume(in_tag != HASHRPF); buf[0] = in_tag & 255; buf[1] = (in_tag >> 8) & 255; buf[2] = (in_tag >> 16) & 255; buf[3] = (in_tag >> 24) & 255; __CPROVER_assert(StringDictionaryHASHRPF__load(&in, in_opt) == NULL, "C16: the kind's loader returns NULL for an image with another type tag"); REACH_POINT(); }
void h_wrongtag_HASHUFFDAC(void) { static uchar buf[64]; struct vstream in; in.buf = buf; in.pos = 0; in.cap = 64; uint32_t in_tag; uint in_opt; __CPROVER_assume(in_tag != HASHUFFDAC); buf[0] = in_tag & 255; buf[1] = (in_tag >> 8) & 255; buf[2] = (in_tag >> 16) & 255; buf[3] = (in_tag >> 24) & 255; __CPROVER_assert(StringDictionaryHASHUFFDAC__load(&in) == NULL, "C16: the kind's loader returns NULL for an image with another type tag"); REACH_POINT(); }
void h_wrongtag_HASHRPDAC(void) { static uchar buf[64]; struct vstream in; in.buf = buf; in.pos = 0; in.cap = 64; uint32_t in_tag; uint in_opt; __CPROVER_assume(in_tag != HASHRPDAC); buf[0] = in_tag & 255; buf[1] = (in_tag >> 8) & 255; buf[2] = (in_tag >> 16) & 255; buf[3] = (in_tag >> 24) & 255; __CPROVER_assert(StringDictionaryHASHRPDAC__load(&in, in_opt) == NULL, "C16: the kind's loader returns NULL for an image with another type tag"); REACH_POINT(); }
void h_wrongtag_FMINDEX(void) { static uchar buf[64]; struct vstream in; in.buf = buf; in.pos = 0; in.cap = 64; uint32_t in_tag; uint in_opt; __CPROVER_assume(in_tag != FMINDEX); buf[0] = in_tag & 255; buf[1] = (in_tag >> 8) & 255; buf[2] = (in_tag >> 16) & 255; buf[3] = (in_tag >> 24) & 255; __CPROVER_assert(StringDictionaryFMINDEX__load(&in) == NULL, "C16: the kind's loader returns NULL for an image with another type tag"); REACH_POINT(); }
void h_wrongtag_XBW(void) { static uchar buf[64]; struct vstream in; in.buf = buf; in.pos = 0; in.cap = 64; uint32_t in_tag; uint in_opt; __CPROVER_assume(in_tag != DXBW); buf[0] = in_tag & 255; buf[1] = (in_tag >> 8) & 255; buf[2] = (in_tag >> 16) & 255; buf[3] = (in_tag >> 24) & 255; __CPROVER_assert(StringDictionaryXBW__load(&in) == NULL, "C16: the kind's loader returns NULL for an image with another type tag"); REACH_POINT(); }
void h_guard_RPFC(void) { StringDictionaryRPFC *d = malloc(sizeof(StringDictionaryRPFC)); __CPROVER_assume(d != NULL); size_t in_id; uint len = 77; __CPROVER_assume(in_id == 0 || in_id > d->elements); StringDictionaryRPFC__extract(d, in_id, &len); REACH_POINT(); }
void h_stub_RPFC_locateSubstr(void) { StringDictionaryRPFC *d = malloc(sizeof(StringDictionaryRPFC)); __CPROVER_assume(d != NULL); uchar *s; uint l; StringDictionaryRPFC__locateSubstr(d, s, l); REACH_POINT(); }
void h_stub_RPFC_extractSubstr(void) { StringDictionaryRPFC *d = malloc(sizeof(StringDictionaryRPFC)); __CPROVER_assume(d != NULL); uchar *s; uint l; StringDictionaryRPFC__extractSubstr(d, s, l); REACH_POINT(); }
void h_guard_HTFC(void) { StringDictionaryHTFC *d = malloc(sizeof(StringDictionaryHTFC)); __CPROVER_assume(d != NULL); size_t in_id; uint len = 77; __CPROVER_assume(in_id == 0 || in_id > d->elements); StringDictionaryHTFC__extract(d, in_id, &len); REACH_POINT(); }
void h_stub_HTFC_locateSubstr(void) { StringDictionaryHTFC *d = malloc(sizeof(StringDictionaryHTFC)); __CPROVER_assume(d != NULL); uchar *s; uint l; StringDictionaryHTFC__locateSubstr(d, s, l); REACH_POINT(); }
void h_stub_HTFC_extractSubstr(void) { StringDictionaryHTFC *d = malloc(sizeof(StringDictionaryHTFC)); __CPROVER_assume(d != NULL); uchar *s; uint l; StringDictionaryHTFC__extractSubstr(d, s, l); REACH_POINT(); }
void h_guard_HHTFC(void) { StringDictionaryHHTFC *d = malloc(sizeof(StringDictionaryHHTFC)); __CPROVER_assume(d != NULL); size_t in_id; uint len = 77; __CPROVER_assume(in_id == 0 || in_id > d->elements); StringDictionaryHHTFC__extract(d, in_id, &len); REACH_POINT(); }
void h_stub_HHTFC_locateSubstr(void) { StringDictionaryHHTFC *d = malloc(sizeof(StringDictionaryHHTFC)); __CPROVER_assume(d != NULL); uchar *s; uint l; StringDictionaryHHTFC__locateSubstr(d, s, l); REACH_POINT(); }
void h_stub_HHTFC_extractSubstr(void) { StringDictionaryHHTFC *d = malloc(sizeof(StringDictionaryHHTFC)); __CPROVER_assume(d != NULL); uchar *s; uint l; StringDictionaryHHTFC__extractSubstr(d, s, l); REACH_POINT(); }
void h_guard_RPHTFC(void) { StringDictionaryRPHTFC *d = malloc(sizeof(StringDictionaryRPHTFC)); __CPROVER_assume(d != NULL); size_t in_id; uint len = 77; __CPROVER_assume(in_id == 0 || in_id > d->elements); StringDictionaryRPHTFC__extract(d, in_id, &len); REACH_POINT(); }
void h_stub_RPHTFC_locateSubstr(void) { StringDictionaryRPHTFC *d = malloc(sizeof(StringDictionaryRPHTFC)); __CPROVER_assume(d != NULL); uchar *s; uint l; StringDictionaryRPHTFC__locateSubstr(d, s, l); REACH_POINT(); }
void h_stub_RPHTFC_extractSubstr(void) { StringDictionaryRPHTFC *d = malloc(sizeof(StringDictionaryRPHTFC)); __CPROVER_assume(d != NULL); uchar *s; uint l; StringDictionaryRPHTFC__extractSubstr(d, s, l); REACH_POINT(); }
void h_guard_RPDAC(void) { StringDictionaryRPDAC *d = malloc(sizeof(StringDictionaryRPDAC)); __CPROVER_assume(d != NULL); size_t in_id; uint len = 77; __CPROVER_assume(in_id == 0 || in_id > d->elements); StringDictionaryRPDAC__extract(d, in_id, &len); REACH_POINT(); }
void h_stub_RPDAC_locateSubstr(void) { StringDictionaryRPDAC *d = malloc(sizeof(StringDictionaryRPDAC)); __CPROVER_assume(d != NULL); uchar *s; uint l; StringDictionaryRPDAC__locateSubstr(d, s, l); REACH_POINT(); }
void h_stub_RPDAC_extractSubstr(void) { StringDictionaryRPDAC *d = malloc(sizeof(StringDictionaryRPDAC)); __CPROVER_assume(d != NULL); uchar *s; uint l; StringDictionaryRPDAC__extractSubstr(d, s, l); REACH_POINT(); }
void h_guard_HASHHF(void) { StringDictionaryHASHHF *d = malloc(sizeof(StringDictionaryHASHHF)); __CPROVER_assume(d != NULL); size_t in_id; uint len = 77; __CPROVER_assume(in_id == 0 || in_id > d->elements); StringDictionaryHASHHF__extract(d, in_id, &len); REACH_POINT(); }
void h_stub_HASHHF_locatePrefix(void) { StringDictionaryHASHHF *d = malloc(sizeof(StringDictionaryHASHHF)); __CPROVER_assume(d != NULL); uchar *s; uint l; StringDictionaryHASHHF__locatePrefix(d, s, l); REACH_POINT(); }
void h_stub_HASHHF_locateSubstr(void) { StringDictionaryHASHHF *d = malloc(sizeof(StringDictionaryHASHHF)); __CPROVER_assume(d != NULL); uchar *s; uint l; StringDictionaryHASHHF__locateSubstr(d, s, l); REACH_POINT(); }
void h_stub_HASHHF_extractPrefix(void) { StringDictionaryHASHHF *d = malloc(sizeof(StringDictionaryHASHHF)); __CPROVER_assume(d != NULL); uchar *s; uint l; StringDictionaryHASHHF__extractPrefix(d, s, l); REACH_POINT(); }
void h_stub_HASHHF_extractSubstr(void) { StringDictionaryHASHHF *d = malloc(sizeof(StringDictionaryHASHHF)); __CPROVER_assume(d != NULL); uchar *s; uint l; StringDictionaryHASHHF__extractSubstr(d, s, l); REACH_POINT(); }
void h_guard_HASHRPF(void) { StringDictionaryHASHRPF *d = malloc(sizeof(StringDictionaryHASHRPF)); __CPROVER_assume(d != NULL); size_t in_id; uint len = 77; __CPROVER_assume(in_id == 0 || in_id > d->elements); StringDictionaryHASHRPF__extract(d, in_id, &len); REACH_POINT(); }
void h_stub_HASHRPF_locatePrefix(void) { StringDictionaryHASHRPF *d = malloc(sizeof(StringDictionaryHASHRPF)); __CPROVER_assume(d != NULL); uchar *s; uint l; StringDictionaryHASHRPF__locatePrefix(d, s, l); REACH_POINT(); }
void h_stub_HASHRPF_locateSubstr(void) { StringDictionaryHASHRPF *d = malloc(sizeof(StringDictionaryHASHRPF)); __CPROVER_assume(d != NULL); uchar *s; uint l; StringDictionaryHASHRPF__locateSubstr(d, s, l); REACH_POINT(); }
void h_stub_HASHRPF_extractPrefix(void) { StringDictionaryHASHRPF *d = malloc(sizeof(StringDictionaryHASHRPF)); __CPROVER_assume(d != NULL); uchar *s; uint l; StringDictionaryHASHRPF__extractPrefix(d, s, l); REACH_POINT(); }
void h_stub_HASHRPF_extractSubstr(void) { StringDictionaryHASHRPF *d = malloc(sizeof(StringDictionaryHASHRPF)); __CPROVER_assume(d != NULL); uchar *s; uint l; StringDictionaryHASHRPF__extractSubstr(d, s, l); REACH_POINT(); }
void h_guard_HASHUFFDAC(void) { StringDictionaryHASHUFFDAC *d = malloc(sizeof(StringDictionaryHASHUFFDAC)); __CPROVER_assume(d != NULL); size_t in_id; uint len = 77; __CPROVER_assume(in_id == 0 || in_id > d->elements); StringDictionaryHASHUFFDAC__extract(d, in_id, &len); REACH_POINT(); }
void h_stub_HASHUFFDAC_locatePrefix(void) { StringDictionaryHASHUFFDAC *d = malloc(sizeof(StringDictionaryHASHUFFDAC)); __CPROVER_assume(d != NULL); uchar *s; uint l; StringDictionaryHASHUFFDAC__locatePrefix(d, s, l); REACH_POINT(); }
void h_stub_HASHUFFDAC_locateSubstr(void) { StringDictionaryHASHUFFDAC *d = malloc(sizeof(StringDictionaryHASHUFFDAC)); __CPROVER_assume(d != NULL); uchar *s; uint l; StringDictionaryHASHUFFDAC__locateSubstr(d, s, l); REACH_POINT(); }
void h_stub_HASHUFFDAC_extractPrefix(void) { StringDictionaryHASHUFFDAC *d = malloc(sizeof(StringDictionaryHASHUFFDAC)); __CPROVER_assume(d != NULL); uchar *s; uint l; StringDictionaryHASHUFFDAC__extractPrefix(d, s, l); REACH_POINT(); }
void h_stub_HASHUFFDAC_extractSubstr(void) { StringDictionaryHASHUFFDAC *d = malloc(sizeof(StringDictionaryHASHUFFDAC)); __CPROVER_assume(d != NULL); uchar *s; uint l; StringDictionaryHASHUFFDAC__extractSubstr(d, s, l); REACH_POINT(); }
void h_guard_HASHRPDAC(void) { StringDictionaryHASHRPDAC *d = malloc(sizeof(StringDictionaryHASHRPDAC)); __CPROVER_assume(d != NULL); size_t in_id; uint len = 77; __CPROVER_assume(in_id == 0 || in_id > d->elements); StringDictionaryHASHRPDAC__extract(d, in_id, &len); REACH_POINT(); }
void h_stub_HASHRPDAC_locatePrefix(void) { StringDictionaryHASHRPDAC *d = malloc(sizeof(StringDictionaryHASHRPDAC)); __CPROVER_assume(d != NULL); uchar *s; uint l; StringDictionaryHASHRPDAC__locatePrefix(d, s, l); REACH_POINT(); }
void h_stub_HASHRPDAC_locateSubstr(void) { StringDictionaryHASHRPDAC *d = malloc(sizeof(StringDictionaryHASHRPDAC)); __CPROVER_assume(d != NULL); uchar *s; uint l; StringDictionaryHASHRPDAC__locateSubstr(d, s, l); REACH_POINT(); }
void h_stub_HASHRPDAC_extractPrefix(void) { StringDictionaryHASHRPDAC *d = malloc(sizeof(StringDictionaryHASHRPDAC)); __CPROVER_assume(d != NULL); uchar *s; uint l; StringDictionaryHASHRPDAC__extractPrefix(d, s, l); REACH_POINT(); }
void h_stub_HASHRPDAC_extractSubstr(void) { StringDictionaryHASHRPDAC *d = malloc(sizeof(StringDictionaryHASHRPDAC)); __CPROVER_assume(d != NULL); uchar *s; uint l; StringDictionaryHASHRPDAC__extractSubstr(d, s, l); REACH_POINT(); }
void h_guard_FMINDEX(void) { StringDictionaryFMINDEX *d = malloc(sizeof(StringDictionaryFMINDEX)); __CPROVER_assume(d != NULL); size_t in_id; uint len = 77; __CPROVER_assume(in_id == 0 || in_id > d->elements); StringDictionaryFMINDEX__extract(d, in_id, &len); REACH_POINT(); }
void h_guard_XBW(void) { StringDictionaryXBW *d = malloc(sizeof(StringDictionaryXBW)); __CPROVER_assume(d != NULL); size_t in_id; uint len = 77; __CPROVER_assume(in_id == 0 || in_id > d->elements); StringDictionaryXBW__extract(d, in_id, &len); REACH_POINT(); }
void h_stub_XBW_extractTable(void) { StringDictionaryXBW *d = malloc(sizeof(StringDictionaryXBW)); __CPROVER_assume(d != NULL); StringDictionaryXBW__extractTable(d); REACH_POINT(); }

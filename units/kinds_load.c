//@ unit kinds_load
//@ autostub havoc
//@ global PFC RPFC HTFC HHTFC RPHTFC RPDAC FMINDEX DXBW HASHHF HASHUFFDAC HASHRPF HASHRPDAC HASHUFF HASHBHUFF HASHBBHUFF HASHRP HASHBRP HASHBBRP
//@ class StringDictionary tu=StringDictionaryRPFC.cpp
//@ class SSA tu=StringDictionaryFMINDEX.cpp
//@ tu StringDictionaryPFC.cpp
//@ class StringDictionaryPFC
//@ tu StringDictionaryRPFC.cpp
//@ class StringDictionaryRPFC
//@ tu StringDictionaryHTFC.cpp
//@ class StringDictionaryHTFC
//@ tu StringDictionaryHHTFC.cpp
//@ class StringDictionaryHHTFC
//@ tu StringDictionaryRPHTFC.cpp
//@ class StringDictionaryRPHTFC
//@ tu StringDictionaryRPDAC.cpp
//@ class StringDictionaryRPDAC
//@ tu StringDictionaryHASHHF.cpp
//@ class StringDictionaryHASHHF
//@ tu StringDictionaryHASHRPF.cpp
//@ class StringDictionaryHASHRPF
//@ tu StringDictionaryHASHUFFDAC.cpp
//@ class StringDictionaryHASHUFFDAC
//@ tu StringDictionaryHASHRPDAC.cpp
//@ class StringDictionaryHASHRPDAC
//@ tu StringDictionaryFMINDEX.cpp
//@ class StringDictionaryFMINDEX
//@ tu StringDictionaryXBW.cpp
//@ class StringDictionaryXBW
//@ tu StringDictionaryPFC.cpp
//@ fn StringDictionaryPFC::load
//@ tu StringDictionaryRPFC.cpp
//@ fn StringDictionaryRPFC::load
//@ tu StringDictionaryHTFC.cpp
//@ fn StringDictionaryHTFC::load
//@ tu StringDictionaryHHTFC.cpp
//@ fn StringDictionaryHHTFC::load
//@ tu StringDictionaryRPHTFC.cpp
//@ fn StringDictionaryRPHTFC::load
//@ tu StringDictionaryRPDAC.cpp
//@ fn StringDictionaryRPDAC::load
//@ tu StringDictionaryHASHHF.cpp
//@ fn StringDictionaryHASHHF::load
//@ tu StringDictionaryHASHRPF.cpp
//@ fn StringDictionaryHASHRPF::load
//@ tu StringDictionaryHASHUFFDAC.cpp
//@ fn StringDictionaryHASHUFFDAC::load
//@ tu StringDictionaryHASHRPDAC.cpp
//@ fn StringDictionaryHASHRPDAC::load
//@ tu StringDictionaryFMINDEX.cpp
//@ fn StringDictionaryFMINDEX::load
//@ tu StringDictionaryXBW.cpp
//@ fn StringDictionaryXBW::load
//@ ob loadtag_PFC entry=h_loadtag_PFC tier=C props=C08,C06 kind=statement unwind=10 replay=loadtag
//@ ob loadtag_RPFC entry=h_loadtag_RPFC tier=C props=C08,C06 kind=statement unwind=10 replay=loadtag
//@ ob loadtag_HTFC entry=h_loadtag_HTFC tier=C props=C08,C06 kind=statement unwind=10 replay=loadtag
//@ ob loadtag_HHTFC entry=h_loadtag_HHTFC tier=C props=C08,C06 kind=statement unwind=10 replay=loadtag
//@ ob loadtag_RPHTFC entry=h_loadtag_RPHTFC tier=C props=C08,C06 kind=statement unwind=10 replay=loadtag
//@ ob loadtag_RPDAC entry=h_loadtag_RPDAC tier=C props=C08,C06 kind=statement unwind=10 replay=loadtag
//@ ob loadtag_HASHHF entry=h_loadtag_HASHHF tier=C props=C08,C06 kind=statement unwind=10 replay=loadtag
//@ ob loadtag_HASHRPF entry=h_loadtag_HASHRPF tier=C props=C08,C06 kind=statement unwind=10 replay=loadtag
//@ ob loadtag_HASHUFFDAC entry=h_loadtag_HASHUFFDAC tier=C props=C08,C06 kind=statement unwind=10 replay=loadtag
//@ ob loadtag_HASHRPDAC entry=h_loadtag_HASHRPDAC tier=C props=C08,C06 kind=statement unwind=10 replay=loadtag
//@ ob loadtag_FMINDEX entry=h_loadtag_FMINDEX tier=C props=C08,C06 kind=statement unwind=10 replay=loadtag
//@ ob loadtag_XBW entry=h_loadtag_XBW tier=C props=C08,C06 kind=statement unwind=10 replay=loadtag
#define VSTREAM_HAVOC_ARRAY_LOAD
#include "vstream.h"
typedef struct Codeword Codeword;
//@ structs
/* TRUSTED: component loaders are outside this obligation (havoc stubs: arbitrary result, no visible effect); SSA::load returns some SSA object */
SSA *SSA__load(struct vstream *a0);
static inline Codeword *loadValue__Codeword__2(struct vstream *in, const size_t len) { Codeword *r_; return r_; }
//@ lowered
static SSA g_ssa; SSA *SSA__load(struct vstream *a0) { return &g_ssa; }
/* C08: a dictionary obtained from load carries its kind's type tag, so that saving it again writes an image the loaders accept (save writes the tag field verbatim) */
void h_loadtag_PFC(void) { uchar buf[256]; struct vstream in; in.buf = buf; in.pos = 0; in.cap = 256; buf[0] = PFC & 255; buf[1] = (PFC >> 8) & 255; buf[2] = 0; buf[3] = 0; StringDictionary *r = StringDictionaryPFC__load(&in); __CPROVER_assert(r != NULL, "the kind's loader accepts an image with its own tag"); __CPROVER_assert(r->type == PFC, "C08: a loaded dictionary carries the kind's type tag"); REACH_POINT(); }
void h_loadtag_RPFC(void) { uchar buf[256]; struct vstream in; in.buf = buf; in.pos = 0; in.cap = 256; buf[0] = RPFC & 255; buf[1] = (RPFC >> 8) & 255; buf[2] = 0; buf[3] = 0; StringDictionary *r = StringDictionaryRPFC__load(&in); __CPROVER_assert(r != NULL, "the kind's loader accepts an image with its own tag"); __CPROVER_assert(r->type == RPFC, "C08: a loaded dictionary carries the kind's type tag"); REACH_POINT(); }
void h_loadtag_HTFC(void) { uchar buf[256]; struct vstream in; in.buf = buf; in.pos = 0; in.cap = 256; buf[0] = HTFC & 255; buf[1] = (HTFC >> 8) & 255; buf[2] = 0; buf[3] = 0; StringDictionary *r = StringDictionaryHTFC__load(&in); __CPROVER_assert(r != NULL, "the kind's loader accepts an image with its own tag"); __CPROVER_assert(r->type == HTFC, "C08: a loaded dictionary carries the kind's type tag"); REACH_POINT(); }
void h_loadtag_HHTFC(void) { uchar buf[256]; struct vstream in; in.buf = buf; in.pos = 0; in.cap = 256; buf[0] = HHTFC & 255; buf[1] = (HHTFC >> 8) & 255; buf[2] = 0; buf[3] = 0; StringDictionary *r = StringDictionaryHHTFC__load(&in); __CPROVER_assert(r != NULL, "the kind's loader accepts an image with its own tag"); __CPROVER_assert(r->type == HHTFC, "C08: a loaded dictionary carries the kind's type tag"); REACH_POINT(); }
void h_loadtag_RPHTFC(void) { uchar buf[256]; struct vstream in; in.buf = buf; in.pos = 0; in.cap = 256; buf[0] = RPHTFC & 255; buf[1] = (RPHTFC >> 8) & 255; buf[2] = 0; buf[3] = 0; StringDictionary *r = StringDictionaryRPHTFC__load(&in); __CPROVER_assert(r != NULL, "the kind's loader accepts an image with its own tag"); __CPROVER_assert(r->type == RPHTFC, "C08: a loaded dictionary carries the kind's type tag"); REACH_POINT(); }
void h_loadtag_RPDAC(void) { uchar buf[256]; struct vstream in; in.buf = buf; in.pos = 0; in.cap = 256; buf[0] = RPDAC & 255; buf[1] = (RPDAC >> 8) & 255; buf[2] = 0; buf[3] = 0; StringDictionary *r = StringDictionaryRPDAC__load(&in); __CPROVER_assert(r != NULL, "the kind's loader accepts an image with its own tag"); __CPROVER_assert(r->type == RPDAC, "C08: a loaded dictionary carries the kind's type tag"); REACH_POINT(); }
void h_loadtag_HASHHF(void) { uchar buf[256]; struct vstream in; in.buf = buf; in.pos = 0; in.cap = 256; buf[0] = HASHHF & 255; buf[1] = (HASHHF >> 8) & 255; buf[2] = 0; buf[3] = 0; uint in_opt; __CPROVER_assume(in_opt == 1 || in_opt == 2 || in_opt == 3); StringDictionary *r = StringDictionaryHASHHF__load(&in, in_opt); __CPROVER_assert(r != NULL, "the kind's loader accepts an image with its own tag"); __CPROVER_assert(r->type == HASHHF, "C08: a loaded dictionary carries the kind's type tag"); REACH_POINT(); }
void h_loadtag_HASHRPF(void) { uchar buf[256]; struct vstream in; in.buf = buf; in.pos = 0; in.cap = 256; buf[0] = HASHRPF & 255; buf[1] = (HASHRPF >> 8) & 255; buf[2] = 0; buf[3] = 0; uint in_opt; __CPROVER_assume(in_opt == 1 || in_opt == 2 || in_opt == 3); StringDictionary *r = StringDictionaryHASHRPF__load(&in, in_opt); __CPROVER_assert(r != NULL, "the kind's loader accepts an image with its own tag"); __CPROVER_assert(r->type == HASHRPF, "C08: a loaded dictionary carries the kind's type tag"); REACH_POINT(); }
void h_loadtag_HASHUFFDAC(void) { uchar buf[256]; struct vstream in; in.buf = buf; in.pos = 0; in.cap = 256; buf[0] = HASHUFFDAC & 255; buf[1] = (HASHUFFDAC >> 8) & 255; buf[2] = 0; buf[3] = 0; StringDictionary *r = StringDictionaryHASHUFFDAC__load(&in); __CPROVER_assert(r != NULL, "the kind's loader accepts an image with its own tag"); __CPROVER_assert(r->type == HASHUFFDAC, "C08: a loaded dictionary carries the kind's type tag"); REACH_POINT(); }
void h_loadtag_HASHRPDAC(void) { uchar buf[256]; struct vstream in; in.buf = buf; in.pos = 0; in.cap = 256; buf[0] = HASHRPDAC & 255; buf[1] = (HASHRPDAC >> 8) & 255; buf[2] = 0; buf[3] = 0; uint in_opt; __CPROVER_assume(in_opt == 1 || in_opt == 2 || in_opt == 3); StringDictionary *r = StringDictionaryHASHRPDAC__load(&in, in_opt); __CPROVER_assert(r != NULL, "the kind's loader accepts an image with its own tag"); __CPROVER_assert(r->type == HASHRPDAC, "C08: a loaded dictionary carries the kind's type tag"); REACH_POINT(); }
void h_loadtag_FMINDEX(void) { uchar buf[256]; struct vstream in; in.buf = buf; in.pos = 0; in.cap = 256; buf[0] = FMINDEX & 255; buf[1] = (FMINDEX >> 8) & 255; buf[2] = 0; buf[3] = 0; StringDictionary *r = StringDictionaryFMINDEX__load(&in); __CPROVER_assert(r != NULL, "the kind's loader accepts an image with its own tag"); __CPROVER_assert(r->type == FMINDEX, "C08: a loaded dictionary carries the kind's type tag"); REACH_POINT(); }
void h_loadtag_XBW(void) { uchar buf[256]; struct vstream in; in.buf = buf; in.pos = 0; in.cap = 256; buf[0] = DXBW & 255; buf[1] = (DXBW >> 8) & 255; buf[2] = 0; buf[3] = 0; StringDictionary *r = StringDictionaryXBW__load(&in); __CPROVER_assert(r != NULL, "the kind's loader accepts an image with its own tag"); __CPROVER_assert(r->type == DXBW, "C08: a loaded dictionary carries the kind's type tag"); REACH_POINT(); }

//@ unit dispatch
//@ tu StringDictionary.cpp
//@ class StringDictionary
//@ global PFC RPFC HTFC HHTFC RPHTFC RPDAC FMINDEX DXBW HASHHF HASHUFFDAC HASHRPF HASHRPDAC HASHRPDACBlocks HASHUFF
//@ fn StringDictionary::load
//@ ob sl_dispatch entry=h_dispatch tier=C props=C06,C16 kind=statement unwind=6
#include "vstream.h"
//@ structs
/* loaders of the other kinds: the dispatcher obligation only observes which loader is called and where the stream stands */
static uint32_t g_called; static size_t g_pos_at_call; static uint g_opt; static StringDictionary g_dummy;
#define KIND_LOADER1(K) StringDictionary *StringDictionary##K##__load(struct vstream *in) { g_called = K; g_pos_at_call = in->pos; return &g_dummy; }
#define KIND_LOADER2(K) StringDictionary *StringDictionary##K##__load(struct vstream *in, uint opt) { g_called = K; g_pos_at_call = in->pos; g_opt = opt; return &g_dummy; }
#define P1(K) StringDictionary *StringDictionary##K##__load(struct vstream *in);
#define P2(K) StringDictionary *StringDictionary##K##__load(struct vstream *in, uint opt);
P1(PFC) P2(HASHHF) P1(HASHUFFDAC) P2(HASHRPF) P2(HASHRPDAC) P1(RPFC) P1(HTFC) P1(HHTFC) P1(RPHTFC) P1(RPDAC) P1(FMINDEX) P1(XBW)
//@ lowered
#define BUFCAP 64
static void mk_stream(struct vstream *s, uchar *buf) { s->buf = buf; s->pos = 0; s->cap = BUFCAP; }
KIND_LOADER1(PFC)
KIND_LOADER2(HASHHF) KIND_LOADER1(HASHUFFDAC) KIND_LOADER2(HASHRPF) KIND_LOADER2(HASHRPDAC)
KIND_LOADER1(RPFC) KIND_LOADER1(HTFC) KIND_LOADER1(HHTFC) KIND_LOADER1(RPHTFC) KIND_LOADER1(RPDAC) KIND_LOADER1(FMINDEX)
StringDictionary *StringDictionaryXBW__load(struct vstream *in) { g_called = DXBW; g_pos_at_call = in->pos; return &g_dummy; }
/* C06/C16: the generic loader selects the kind from the type tag -- for every 32-bit tag */
void h_dispatch(void) {
  static uchar buf[BUFCAP]; struct vstream in; mk_stream(&in, buf);
  uint32_t in_tag; uint in_opt;
  buf[0] = in_tag & 255; buf[1] = (in_tag >> 8) & 255; buf[2] = (in_tag >> 16) & 255; buf[3] = (in_tag >> 24) & 255;
  g_called = 0xFFFFFFFFu;
  StringDictionary *r = StringDictionary__load(&in, in_opt);
  int known = in_tag == PFC || in_tag == RPFC || in_tag == HTFC || in_tag == HHTFC || in_tag == RPHTFC || in_tag == RPDAC ||
              in_tag == FMINDEX || in_tag == DXBW || in_tag == HASHHF || in_tag == HASHUFFDAC || in_tag == HASHRPF || in_tag == HASHRPDAC;
  if (known) {
    __CPROVER_assert(r == &g_dummy && g_called == in_tag && g_pos_at_call == 0, "C06: the generic loader calls exactly the loader of the tagged kind, on the rewound stream");
  } else {
    __CPROVER_assert(r == NULL && g_called == 0xFFFFFFFFu, "C16: unknown type tag -> NULL, no loader called");
  }
  REACH_POINT();
}

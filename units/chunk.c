//@ unit chunk
//@ autostub havoc
//@ tu utils/Coder/DecodingTable.cpp
//@ class ChunkScan
//@ class Entry
//@ class TreeNode
//@ class DecodingTree
//@ class DecodingTable
//@ fn DecodingTable::getSubstring
//@   requires(__CPROVER_r_ok(this, sizeof(*this)) && __CPROVER_rw_ok(c, sizeof(ChunkScan)) && this->k >= 1 && this->k <= 16 && c->c_valid >= this->k && c->c_valid <= 32)
//@   requires(__CPROVER_rw_ok(c->str, STRCAP) && OFFS(c->str) == 0 && c->strLen <= 1000 && !__CPROVER_same_object(c->str, c))
//@   ensures((uint)OFFS(c->b_ptr) + c->b_remain == (uint)OFFS(OLD(c->b_ptr)) + OLD(c->b_remain))
//@   ensures(__CPROVER_same_object(c->b_ptr, OLD(c->b_ptr)))
//@   assigns(c->c_chunk, c->c_valid, c->b_ptr, c->b_remain, c->strLen, c->advanced, c->extracted, __CPROVER_object_whole(c->str))
//@   loop 1: assigns(i, __CPROVER_object_whole(c->str))
//@   loop 1: invariant(i <= x.length)
//@   loop 2: assigns(c->c_chunk, c->c_valid, c->b_ptr, c->b_remain, node)
//@   loop 2: invariant((uint)OFFS(c->b_ptr) + c->b_remain == (uint)OFFS(__CPROVER_loop_entry(c->b_ptr)) + __CPROVER_loop_entry(c->b_remain) && __CPROVER_same_object(c->b_ptr, __CPROVER_loop_entry(c->b_ptr)))
//@ fn DecodingTable::processChunk
//@   requires(__CPROVER_r_ok(this, sizeof(*this)) && __CPROVER_rw_ok(c, sizeof(ChunkScan)) && this->k >= 1 && this->k <= 16 && c->c_valid <= 24)
//@   requires(__CPROVER_rw_ok(c->str, STRCAP) && OFFS(c->str) == 0 && c->strLen <= 1000 && !__CPROVER_same_object(c->str, c))
//@   ensures((uint)OFFS(c->b_ptr) + c->b_remain == (uint)OFFS(OLD(c->b_ptr)) + OLD(c->b_remain))
//@   assigns(c->c_chunk, c->c_valid, c->b_ptr, c->b_remain, c->strLen, c->advanced, c->extracted, __CPROVER_object_whole(c->str))
//@   loop 1: assigns(c->c_chunk, c->c_valid, c->b_ptr, c->b_remain)
//@   loop 1: invariant((uint)OFFS(c->b_ptr) + c->b_remain == (uint)OFFS(__CPROVER_loop_entry(c->b_ptr)) + __CPROVER_loop_entry(c->b_remain) && __CPROVER_same_object(c->b_ptr, __CPROVER_loop_entry(c->b_ptr)) && c->c_valid <= 24)
//@ ob chunk_getSubstring_accounting entry=h_getsub enforce=DecodingTable__getSubstring replace=strlen loops tier=P props=C18,C07 kind=representation timeout=900 nochecks=bounds-check,pointer-check,pointer-overflow-check,pointer-primitive-check,undefined-shift-check
//@ ob chunk_processChunk_accounting entry=h_procchunk enforce=DecodingTable__processChunk replace=DecodingTable__getSubstring loops tier=P props=C18,C07 kind=representation timeout=600 nochecks=bounds-check,pointer-check,pointer-overflow-check,pointer-primitive-check,undefined-shift-check
#define STRCAP 1100
typedef struct BitString BitString;
#include "vec.h"
DEFINE_VEC(uint, vec_uint)
//@ structs
/* ASSUMES: this obligation decides one clause only -- every byte taken from the bucket (b_ptr++) is accounted for in b_remain, in the chunk refill loop and in the long-code-word subtree walk; CBMC's read-side memory checks are off (the decoding table, its stream and its subtrees are arbitrary here) */
/* TRUSTED: strlen reads its argument and writes nothing (its result is irrelevant to the byte accounting) */
size_t strlen(const char *s) __CPROVER_requires(1) __CPROVER_ensures(1) __CPROVER_assigns();
//@ lowered
static ChunkScan *mk_scan(void) {
  ChunkScan *c = malloc(sizeof(ChunkScan)); __CPROVER_assume(c != NULL);
  c->str = malloc(STRCAP); __CPROVER_assume(c->str != NULL);
  uchar *bucket = malloc(2000); __CPROVER_assume(bucket != NULL); size_t off; __CPROVER_assume(off <= 1000); c->b_ptr = bucket + off;
  return c;
}
static void small_entries(DecodingTable *t) { for (int i = 0; i < 256; i++) __CPROVER_assume(t->ventry[i].length <= 15); }   /* class invariant: ventry[i] == decodeInfo(i), proved in unit coder */
static DecodingTable *mk_table(void) {
  DecodingTable *t = malloc(sizeof(DecodingTable)); __CPROVER_assume(t != NULL); small_entries(t);
  t->stream = malloc(64); t->table = malloc(64 * sizeof(uint)); t->subtrees = malloc(2 * sizeof(DecodingTree *));
  __CPROVER_assume(t->stream != NULL && t->table != NULL && t->subtrees != NULL);
  for (int i = 0; i < 2; i++) { t->subtrees[i] = malloc(sizeof(DecodingTree)); __CPROVER_assume(t->subtrees[i] != NULL); t->subtrees[i]->tree = malloc(8 * sizeof(TreeNode)); __CPROVER_assume(t->subtrees[i]->tree != NULL); }
  return t;
}
void h_getsub(void) { DecodingTable *t = mk_table(); ChunkScan *c = mk_scan(); DecodingTable__getSubstring(t, c); REACH_POINT(); }
void h_procchunk(void) { DecodingTable *t = mk_table(); ChunkScan *c = mk_scan(); DecodingTable__processChunk(t, c); REACH_POINT(); }

//@ unit rg2
//@ autostub havoc
//@ tu libcds/src/bitsequence/BitSequenceRG.cpp
//@ class BitSequence
//@ class BitSequenceRG
//@ global W
//@ fn BitSequenceRG::load
//@ fn BitSequenceRG::ctor sig=0
//@ ob rg_load_counts entry=h_rg_load_counts tier=C props=C19,C06,C07 kind=statement unwind=10
#define VSTREAM_HAVOC_ARRAY_LOAD
#include "vstream.h"
//@ structs
/* TRUSTED: array payload loads are recorded, not performed (this obligation is about the *number* of words load asks for, for every length n); rank1 on the loaded object is outside it (havoc stub) */
//@ lowered
/* C19/C06: for every bitmap length n and sampling factor, load() reads exactly the number of bitmap words and rank
 * samples that save() wrote (save writes `integers` = n/32+1 words and n/s+1 samples) -- so the image is consumed
 * exactly and the rank directory is not shifted */
void h_rg_load_counts(void) {
  uchar buf[64]; struct vstream in; in.buf = buf; in.pos = 0; in.cap = 64;
  size_t in_n, in_factor; __CPROVER_assume(in_n >= 1 && in_n < ((size_t)1 << 40) && in_factor >= 1 && in_factor <= 64);
  buf[0] = 3; buf[1] = 0; buf[2] = 0; buf[3] = 0;                       /* BRW32_HDR */
  for (int k = 0; k < 8; k++) { buf[4 + k] = (in_n >> (8 * k)) & 255; buf[12 + k] = (in_factor >> (8 * k)) & 255; }
  BitSequenceRG *r = BitSequenceRG__load(&in);
  __CPROVER_assert(r->n == in_n && r->factor == in_factor && r->s == 32 * in_factor, "C06: n, factor, s after load");
  __CPROVER_assert(r->integers == in_n / 32 + 1, "C19/C06: load computes the same word count as the constructor/save (n/32+1) for every n");
  REACH_POINT();
}

//@ unit pfc_nav
//@ tu StringDictionaryPFC.cpp
//@ class StringDictionary
//@ class StringDictionaryPFC
//@ class LogSequence tu=utils/LogSequence.cpp
//@ class VByte tu=utils/VByte.cpp
//@ class IteratorDictString
//@ class IteratorDictID
//@ class IteratorDictIDContiguous
//@ class IteratorDictStringPFC
//@ fn StringDictionaryPFC::locateBucket
//@   requires(__CPROVER_r_ok(this, sizeof(*this)) && PFC_WF(this) && CSTR_OBJ(str) && __CPROVER_w_ok(idbucket, sizeof(size_t)))
//@   ensures(*idbucket <= this->buckets)
//@   ensures(RET ==> *idbucket >= 1)
//@   assigns(*idbucket)
//@   loop 1: assigns(left, right, center, cmp)
//@   loop 1: invariant(1 <= left && left <= right + 1 && right <= this->buckets)
//@   loop 1: invariant(center <= this->buckets && (center == 0 ==> (cmp == 0 && left == 1 && right == this->buckets)))
//@   loop 1: invariant(center >= 1 ==> ((cmp > 0 && right == center - 1) || (cmp < 0 && left == center + 1)))
//@   loop 1: decreases(right + 1 - left)
//@ fn StringDictionaryPFC::locateBoundaryBuckets
//@   requires(__CPROVER_r_ok(this, sizeof(*this)) && PFC_WF(this) && CSTR_OBJ(str))
//@   requires(__CPROVER_w_ok(left, sizeof(size_t)) && __CPROVER_w_ok(right, sizeof(size_t)) && left != right && *left == 1 && *right == this->buckets)
//@   ensures(*left <= *right && *right <= this->buckets)
//@   assigns(*left, *right)
//@   loop 1: assigns(*left, *right, center, cmp)
//@   loop 1: invariant(1 <= *left && *left <= *right + 1 && *right <= this->buckets && center <= this->buckets)
//@   loop 1: invariant(center == 0 ==> (cmp == 0 && *left == 1 && *right == this->buckets))
//@   loop 1: invariant(center >= 1 ==> ((cmp > 0 && *right == center - 1) || (cmp < 0 && *left == center + 1)))
//@   loop 1: decreases(*right + 1 - *left)
//@   loop 2: assigns(ll, lr, lc, cmp)
//@   loop 2: invariant(1 <= ll && ll <= lr + 1 && lr <= center - 1)
//@   loop 2: decreases(lr + 1 - ll)
//@   loop 3: assigns(rl, rr, rc, cmp)
//@   loop 3: invariant(center <= rl && rl < rr && rr <= this->buckets + 1)
//@   loop 3: decreases(rr - rl)
//@ fn StringDictionaryPFC::extract
//@   requires(__CPROVER_r_ok(this, sizeof(*this)) && __CPROVER_w_ok(strLen, sizeof(uint)))
//@   ensures((id == 0 || id > this->elements) ==> (RET == NULL && *strLen == 0))
//@   assigns(*strLen)
//@ fn StringDictionaryPFC::locateSubstr
//@   requires(1)
//@   ensures(RET == NULL)
//@   assigns()
//@ fn StringDictionaryPFC::extractSubstr
//@   requires(1)
//@   ensures(RET == NULL)
//@   assigns()
//@ fn StringDictionaryPFC::locateRank
//@   requires(1)
//@   ensures(RET == rank)
//@   assigns()
//@ fn StringDictionary::numElements tu=StringDictionary.cpp
//@   requires(__CPROVER_r_ok(this, sizeof(*this)))
//@   ensures(RET == this->elements)
//@   assigns()
//@ fn StringDictionary::maxLength tu=StringDictionary.cpp
//@   requires(__CPROVER_r_ok(this, sizeof(*this)))
//@   ensures(RET == this->maxlength)
//@   assigns()
//@ fn StringDictionaryPFC::ctor sig=IteratorDictString_p__uint cut=first-loop as=PFC_ctor_prefix
//@   requires(__CPROVER_w_ok(this, sizeof(*this)))
//@   ensures(this->bucketsize == (bucketsize < 2 ? 2 : bucketsize) && this->type == PFC && this->elements == 0 && this->maxlength == 0 && this->buckets == 0 && this->bytesStrings == 0)
//@   assigns(__CPROVER_object_whole(this))
//@ fn IteratorDictIDContiguous::ctor
//@   requires(__CPROVER_w_ok(this, sizeof(*this)))
//@   ensures(this->leftLimit == left && this->rightLimit == right && this->processed == left - 1 && this->scanneable == right)
//@   assigns(__CPROVER_object_whole(this))
//@ fn IteratorDictIDContiguous::next
//@   requires(__CPROVER_rw_ok(this, sizeof(*this)))
//@   ensures(RET == OLD(this->processed) + 1 && this->processed == RET)
//@   assigns(this->processed)
//@ fn IteratorDictID::hasNext
//@   requires(__CPROVER_r_ok(this, sizeof(*this)))
//@   ensures(RET == (this->processed < this->scanneable))
//@   assigns()
//@ ob nav_locateBucket entry=h_locateBucket enforce=StringDictionaryPFC__locateBucket replace=LogSequence__getField,strcmp loops tier=P props=C01,C02,C07,C14 kind=representation timeout=600
//@ ob nav_boundary entry=h_boundary enforce=StringDictionaryPFC__locateBoundaryBuckets replace=LogSequence__getField,strncmp loops tier=P props=C04,C07,C14 kind=representation timeout=600
//@ ob nav_extract_badid entry=h_extract_badid enforce=StringDictionaryPFC__extract replace=StringDictionaryPFC__getHeader,StringDictionaryPFC__decodeNextString,VByte__decode unwind=1 tier=C props=C02,C07,C14,C16 kind=statement
//@ ob nav_stub_locateSubstr entry=h_stub1 enforce=StringDictionaryPFC__locateSubstr tier=C props=C16,C14 kind=statement
//@ ob nav_stub_extractSubstr entry=h_stub2 enforce=StringDictionaryPFC__extractSubstr tier=C props=C16,C14 kind=statement
//@ ob nav_locateRank entry=h_rank enforce=StringDictionaryPFC__locateRank tier=C props=C03 kind=statement
//@ ob nav_numElements entry=h_numElements enforce=StringDictionary__numElements tier=C props=C15 kind=statement
//@ ob nav_maxLength entry=h_maxLength enforce=StringDictionary__maxLength tier=C props=C15 kind=statement
//@ ob nav_ctor_clamp entry=h_ctor_prefix enforce=PFC_ctor_prefix tier=C props=C12,C15 kind=statement defs=-DMEMALLOC=1
//@ ob nav_idit_ctor entry=h_idit_ctor enforce=IteratorDictIDContiguous__ctor__size_t__size_t tier=C props=C13,C04 kind=statement
//@ ob nav_idit_next entry=h_idit_next enforce=IteratorDictIDContiguous__next tier=C props=C13,C04 kind=statement
//@ ob nav_idit_hasNext entry=h_idit_hasNext enforce=IteratorDictID__hasNext tier=C props=C13,C04 kind=statement
//@ ob nav_idit_sequence entry=h_idit_seq replace=IteratorDictIDContiguous__ctor__size_t__size_t,IteratorDictIDContiguous__next,IteratorDictID__hasNext tier=C props=C13,C04 kind=statement
#include "libc_contracts.h"
#include "vec.h"
DEFINE_VEC(size_t, vec_size_t)
/* ghost: length of the text the bucket index points into (PFC context of LogSequence::getField) */
size_t g_text_len;
//@ structs
/* representation invariant of a PFC dictionary, quantifier-free part (I-PFC, DESIGN 4.2) */
/* ASSUMES: fewer than 2^31 buckets (the boundary searches add two 32-bit bucket numbers) */
#define PFC_WF(d) ((d)->buckets >= 1 && (d)->buckets < (1u << 31) && (d)->bucketsize >= 2 && (d)->bytesStrings >= 2 && \
   (d)->bytesStrings == g_text_len && __CPROVER_r_ok((d)->textStrings, (d)->bytesStrings) && OFFS((d)->textStrings) == 0 && \
   OBJSZ((d)->textStrings) == (d)->bytesStrings && (d)->textStrings[(d)->bytesStrings - 1] == 0 && \
   __CPROVER_r_ok((d)->blStrings, sizeof(LogSequence)) && (d)->blStrings->numentries == (size_t)(d)->buckets + 2)
/* TRUSTED: interface contract of LogSequence::getField in PFC context (quantified part of I-PFC): every bucket offset lies inside the text; discharged only in the bounded tier, where the constructor is checked to produce repr(S) */
size_t LogSequence__getField(LogSequence *this, size_t position)
__CPROVER_requires(__CPROVER_r_ok(this, sizeof(LogSequence)) && position < this->numentries)
__CPROVER_ensures(RET < g_text_len)
__CPROVER_assigns();
/* TRUSTED: contracts standing in for getHeader/decodeNextString/VByte::decode in the ID-guard slice of extract (unreachable there; unwinding assertion with unwind=1 proves it) */
uchar *StringDictionaryPFC__getHeader(StringDictionaryPFC *this, size_t idbucket, uchar **str, uint *strLen)
__CPROVER_requires(0) __CPROVER_ensures(1) __CPROVER_assigns();
void StringDictionaryPFC__decodeNextString(StringDictionaryPFC *this, uchar **ptr, uint lenPrefix, uchar *str, uint *strLen)
__CPROVER_requires(0) __CPROVER_ensures(1) __CPROVER_assigns();
uint VByte__decode(uint *c, uchar *r)
__CPROVER_requires(0) __CPROVER_ensures(1) __CPROVER_assigns();
//@ lowered
static StringDictionaryPFC *mk_pfc(size_t textlen) {
  StringDictionaryPFC *d = malloc(sizeof(StringDictionaryPFC));
  __CPROVER_assume(d != NULL);
  d->textStrings = malloc(textlen);
  d->blStrings = malloc(sizeof(LogSequence));
  __CPROVER_assume(d->textStrings != NULL && d->blStrings != NULL);
  g_text_len = textlen;
  return d;
}
static uchar *mk_pattern(size_t n) { uchar *p = malloc(n); __CPROVER_assume(p != NULL && n >= 1 && p[n - 1] == 0); return p; }
void h_locateBucket(void) {
  size_t in_textlen, in_patlen; __CPROVER_assume(in_textlen <= 100000 && in_patlen <= 1000);
  StringDictionaryPFC *d = mk_pfc(in_textlen);
  uchar *pat = mk_pattern(in_patlen);
  size_t idb;
  StringDictionaryPFC__locateBucket(d, pat, &idb);
  REACH_POINT();
}
void h_boundary(void) {
  size_t in_textlen, in_patlen; uint in_strlen; __CPROVER_assume(in_textlen <= 100000 && in_patlen <= 1000);
  StringDictionaryPFC *d = mk_pfc(in_textlen);
  uchar *pat = mk_pattern(in_patlen);
  size_t l = 1, r = d->buckets;
  StringDictionaryPFC__locateBoundaryBuckets(d, pat, in_strlen, &l, &r);
  REACH_POINT();
}
void h_extract_badid(void) {
  StringDictionaryPFC *d = malloc(sizeof(StringDictionaryPFC)); __CPROVER_assume(d != NULL);
  size_t in_id; uint len = 77;
  __CPROVER_assume(in_id == 0 || in_id > d->elements);
  StringDictionaryPFC__extract(d, in_id, &len);
  REACH_POINT();
}
void h_stub1(void) { StringDictionaryPFC *d = malloc(sizeof(StringDictionaryPFC)); uchar *s; uint l; StringDictionaryPFC__locateSubstr(d, s, l); REACH_POINT(); }
void h_stub2(void) { StringDictionaryPFC *d = malloc(sizeof(StringDictionaryPFC)); uchar *s; uint l; StringDictionaryPFC__extractSubstr(d, s, l); REACH_POINT(); }
void h_rank(void) { StringDictionaryPFC *d = malloc(sizeof(StringDictionaryPFC)); uint r; StringDictionaryPFC__locateRank(d, r); REACH_POINT(); }
void h_idit_ctor(void) { IteratorDictIDContiguous it; size_t l, r; IteratorDictIDContiguous__ctor__size_t__size_t(&it, l, r); REACH_POINT(); }
void h_idit_next(void) { IteratorDictIDContiguous it; IteratorDictIDContiguous__next(&it); REACH_POINT(); }
void h_idit_hasNext(void) { IteratorDictIDContiguous it; IteratorDictID__hasNext((IteratorDictID *)&it); REACH_POINT(); }
/* lemma ID.seq (from the three contracts): an iterator over [left,right] yields left, left+1, ..., right, each once,
 * then hasNext is false; over (NORESULT, NORESULT) it yields nothing */
void h_idit_seq(void) {
  IteratorDictIDContiguous it; size_t in_left, in_right, in_j;
  __CPROVER_assume(in_left >= 1 && in_left <= in_right && in_right < ((size_t)1 << 40));
  IteratorDictIDContiguous__ctor__size_t__size_t(&it, in_left, in_right);
  /* state after j steps is determined by the contracts: processed == left-1+j */
  __CPROVER_assume(in_j <= in_right - in_left);
  it.processed = in_left - 1 + in_j;   /* inductive step: any reachable state */
  __CPROVER_assert(IteratorDictID__hasNext((IteratorDictID *)&it), "ID.seq: hasNext while fewer than right-left+1 IDs were returned");
  size_t got = IteratorDictIDContiguous__next(&it);
  __CPROVER_assert(got == in_left + in_j, "ID.seq: j-th ID is left+j (ascending, each once)");
  __CPROVER_assert((got == in_right) == !IteratorDictID__hasNext((IteratorDictID *)&it), "ID.seq: hasNext becomes false exactly after right");
  IteratorDictIDContiguous e;
  IteratorDictIDContiguous__ctor__size_t__size_t(&e, NORESULT, NORESULT);
  __CPROVER_assert(!IteratorDictID__hasNext((IteratorDictID *)&e), "ID.seq: (NORESULT,NORESULT) is the empty stream");
  REACH_POINT();
}
void h_numElements(void) { StringDictionaryPFC *d = malloc(sizeof(StringDictionaryPFC)); __CPROVER_assume(d != NULL); StringDictionary__numElements((StringDictionary *)d); REACH_POINT(); }
void h_maxLength(void) { StringDictionaryPFC *d = malloc(sizeof(StringDictionaryPFC)); __CPROVER_assume(d != NULL); StringDictionary__maxLength((StringDictionary *)d); REACH_POINT(); }
/* C12: the constructor prefix (everything before the first loop) for every 32-bit bucketsize argument.  That no
 * later statement of the constructor assigns bucketsize is checked by the bounded ctor==repr obligations. */
void h_ctor_prefix(void) {
  StringDictionaryPFC *d = malloc(sizeof(StringDictionaryPFC)); __CPROVER_assume(d != NULL);
  uint in_bucketsize; __CPROVER_assume(in_bucketsize <= 4096);   /* bounds the initial buffer MEMALLOC*bucketsize */
  PFC_ctor_prefix(d, NULL, in_bucketsize);
  REACH_POINT();
}

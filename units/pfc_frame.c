//@ unit pfc_frame
//@ tu StringDictionaryPFC.cpp
//@ class StringDictionary
//@ class StringDictionaryPFC
//@ class LogSequence tu=utils/LogSequence.cpp
//@ class VByte tu=utils/VByte.cpp
//@ class IteratorDictString
//@ class IteratorDictID
//@ class IteratorDictIDContiguous
//@ class IteratorDictStringPFC
//@ fn StringDictionaryPFC::locatePrefix
//@   requires(__CPROVER_r_ok(this, sizeof(*this)) && PFC_WF(this) && PAT_OK(str, strLen) && !__CPROVER_same_object(str, this))
//@   ensures(RET != NULL)
//@   ensures(gk < PATCAP ==> str[gk] == OLD(str[gk]))
//@   assigns(__CPROVER_object_whole(str))
//@ fn StringDictionaryPFC::locate
//@   requires(__CPROVER_r_ok(this, sizeof(*this)) && PFC_WF(this) && PAT_OK(str, PATCAP - 1) && !__CPROVER_same_object(str, this))
//@   ensures(gk < PATCAP ==> str[gk] == OLD(str[gk]))
//@   ensures(RET <= (size_t)this->buckets * this->bucketsize + 1)
//@   assigns(__CPROVER_object_whole(str))
//@   loop 1: assigns(i, ptr, sharedPrev, sharedCurr, cmp, decLen, __CPROVER_object_whole(decoded))
//@   loop 1: invariant(2 <= i && i <= scanneable && scanneable <= this->bucketsize && idbucket >= 1 && idbucket <= this->buckets && __CPROVER_same_object(decoded, __CPROVER_loop_entry(decoded)) && OFFS(decoded) == 0)
//@   loop 1: decreases(scanneable - i)
//@ ob frame_locatePrefix entry=h_locatePrefix enforce=StringDictionaryPFC__locatePrefix replace=StringDictionaryPFC__locateBoundaryBuckets,StringDictionaryPFC__getHeader,StringDictionaryPFC__searchPrefix,StringDictionaryPFC__searchDistinctPrefix,IteratorDictIDContiguous__ctor__size_t__size_t tier=P props=C14,C04,C07 kind=statement timeout=900
//@ ob frame_locate entry=h_locate enforce=StringDictionaryPFC__locate replace=StringDictionaryPFC__locateBucket,StringDictionaryPFC__getHeader,StringDictionaryPFC__decodeNextString,VByte__decode,longestCommonPrefix loops tier=P props=C14,C01,C02 kind=statement timeout=900 nochecks=pointer-overflow-check,pointer-check,pointer-primitive-check,bounds-check
#define PATCAP 64
size_t gk;          /* ghost index into the caller's pattern buffer */
size_t g_text_len;  /* ghost: bytesStrings */
//@ structs
/* the caller's pattern: a buffer of PATCAP bytes, NUL-terminated somewhere (last byte 0); strLen may be smaller than
 * strlen(str), i.e. the buffer may continue past the prefix that is searched */
#define PAT_OK(s, n) (__CPROVER_rw_ok((s), PATCAP) && OFFS(s) == 0 && OBJSZ(s) == PATCAP && (s)[PATCAP - 1] == 0 && (n) < PATCAP)
#define PFC_WF(d) ((d)->buckets >= 1 && (d)->buckets < (1u << 31) && (d)->bucketsize >= 2 && (d)->bucketsize <= (1u << 20) && (d)->bytesStrings >= 2 && \
   (d)->bytesStrings == g_text_len && g_text_len <= (1u << 30) && (d)->maxlength >= 1 && (d)->maxlength <= 65536 && \
   (d)->elements >= 1 && (d)->elements <= (uint64_t)(d)->buckets * (d)->bucketsize && (d)->elements > (uint64_t)((d)->buckets - 1) * (d)->bucketsize && \
   __CPROVER_r_ok((d)->textStrings, (d)->bytesStrings) && OFFS((d)->textStrings) == 0 && OBJSZ((d)->textStrings) == (d)->bytesStrings && \
   __CPROVER_r_ok((d)->blStrings, sizeof(LogSequence)) && (d)->blStrings->numentries == (size_t)(d)->buckets + 2)
/* TRUSTED (discharged elsewhere, same clauses): contracts of the PFC helpers as used by the pattern-preservation obligations of the query entry points. None of them writes through the pattern pointer. searchPrefix / searchDistinctPrefix / longestCommonPrefix: unit pfc_frame3 (identical requires/ensures/assigns); getHeader / decodeNextString: unit pfc_nav2 (there with the memory-safety preconditions added); locateBucket / locateBoundaryBuckets: unit pfc_nav; VByte::decode: unit vbyte. */
void StringDictionaryPFC__locateBoundaryBuckets(StringDictionaryPFC *this, uchar *str, uint strLen, size_t *left, size_t *right)
__CPROVER_requires(__CPROVER_r_ok(str, 1) && __CPROVER_rw_ok(left, sizeof(size_t)) && __CPROVER_rw_ok(right, sizeof(size_t)) && *left == 1 && *right == this->buckets)
__CPROVER_ensures(*left <= *right && *right <= this->buckets)
__CPROVER_assigns(*left, *right);
bool StringDictionaryPFC__locateBucket(StringDictionaryPFC *this, uchar *str, size_t *idbucket)
__CPROVER_requires(__CPROVER_r_ok(str, 1) && __CPROVER_w_ok(idbucket, sizeof(size_t)))
__CPROVER_ensures(*idbucket <= this->buckets && (RET ==> *idbucket >= 1))
__CPROVER_assigns(*idbucket);
uchar *StringDictionaryPFC__getHeader(StringDictionaryPFC *this, size_t idbucket, uchar **str, uint *strLen)
__CPROVER_requires(idbucket >= 1 && idbucket <= this->buckets && __CPROVER_w_ok(str, sizeof(uchar *)) && __CPROVER_w_ok(strLen, sizeof(uint)))
__CPROVER_ensures(__CPROVER_is_fresh(*str, this->maxlength) && *strLen < this->maxlength)
__CPROVER_assigns(*str, *strLen);
void StringDictionaryPFC__decodeNextString(StringDictionaryPFC *this, uchar **ptr, uint lenPrefix, uchar *str, uint *strLen)
__CPROVER_requires(__CPROVER_rw_ok(ptr, sizeof(uchar *)) && __CPROVER_w_ok(strLen, sizeof(uint)) && __CPROVER_rw_ok(str, 1))
__CPROVER_ensures(1)
__CPROVER_assigns(*ptr, *strLen, __CPROVER_object_whole(str));
uint VByte__decode(uint *c, uchar *r)
__CPROVER_requires(__CPROVER_w_ok(c, sizeof(uint))) __CPROVER_ensures(RET >= 1 && RET <= 5) __CPROVER_assigns(*c);
int longestCommonPrefix(const uchar *str1, const uchar *str2, uint length, uint *lcp)
__CPROVER_requires(__CPROVER_rw_ok(lcp, sizeof(uint))) __CPROVER_ensures(1) __CPROVER_assigns(*lcp);
uint StringDictionaryPFC__searchPrefix(StringDictionaryPFC *this, uchar **ptr, uint scanneable, uchar *decoded, uint *decLen, uchar *str, uint strLen)
__CPROVER_requires(__CPROVER_rw_ok(ptr, sizeof(uchar *)) && __CPROVER_rw_ok(decLen, sizeof(uint)) && __CPROVER_rw_ok(decoded, 1) && OFFS(decoded) == 0)
__CPROVER_requires(!__CPROVER_same_object(decoded, ptr) && !__CPROVER_same_object(decoded, decLen) && !__CPROVER_same_object(ptr, decLen) && !__CPROVER_same_object(str, decoded) && scanneable >= 1 && scanneable < 0xFFFFFFFFu)
__CPROVER_ensures(RET <= scanneable)
__CPROVER_assigns(*ptr, *decLen, __CPROVER_object_whole(decoded));
uint StringDictionaryPFC__searchDistinctPrefix(StringDictionaryPFC *this, uchar *ptr, uint scanneable, uchar *decoded, uint *decLen, uchar *_u4, uint strLen)
__CPROVER_requires(__CPROVER_rw_ok(decLen, sizeof(uint)) && __CPROVER_rw_ok(decoded, 1) && OFFS(decoded) == 0 && !__CPROVER_same_object(decoded, decLen) && scanneable < 0xFFFFFFFFu)
__CPROVER_ensures(RET >= 1 && RET <= scanneable + 1)
__CPROVER_assigns(*decLen, __CPROVER_object_whole(decoded));
IteratorDictIDContiguous *IteratorDictIDContiguous__ctor__size_t__size_t(IteratorDictIDContiguous *this, size_t left, size_t right)
__CPROVER_requires(__CPROVER_w_ok(this, sizeof(*this)))
__CPROVER_ensures(RET == this && this->leftLimit == left && this->rightLimit == right)
__CPROVER_assigns(__CPROVER_object_whole(this));
#ifdef LOCATEPREFIX_CONTRACT
/* contract of locatePrefix as proved by frame_locatePrefix (pattern preserved) plus the shape of its result (TRUSTED here: a fresh contiguous iterator whose limits are both NORESULT or 1 <= left <= right <= elements; decided on the bounded grid in unit pfc_repr) */
IteratorDictID *StringDictionaryPFC__locatePrefix(StringDictionaryPFC *this, uchar *str, uint strLen)
__CPROVER_requires(__CPROVER_rw_ok(str, PATCAP))
__CPROVER_ensures(__CPROVER_is_fresh(RET, sizeof(IteratorDictIDContiguous)))
__CPROVER_ensures((((IteratorDictIDContiguous *)RET)->leftLimit == 0 && ((IteratorDictIDContiguous *)RET)->rightLimit == 0) || (((IteratorDictIDContiguous *)RET)->leftLimit >= 1 && ((IteratorDictIDContiguous *)RET)->leftLimit <= ((IteratorDictIDContiguous *)RET)->rightLimit && ((IteratorDictIDContiguous *)RET)->rightLimit <= this->elements))
__CPROVER_ensures(gk < PATCAP ==> str[gk] == __CPROVER_old(str[gk]))
__CPROVER_assigns(__CPROVER_object_whole(str));
#endif
size_t LogSequence__getField(LogSequence *this, size_t position)
__CPROVER_requires(position <= this->numentries) __CPROVER_ensures(RET < g_text_len) __CPROVER_assigns();
IteratorDictStringPFC *IteratorDictStringPFC__ctor__uchar_p__uint__uint__size_t__uint(IteratorDictStringPFC *this, uchar *ptrS, uint offset, uint bucketsize, size_t scanneable, uint maxlength)
__CPROVER_requires(__CPROVER_w_ok(this, sizeof(*this))) __CPROVER_ensures(RET == this) __CPROVER_assigns(__CPROVER_object_whole(this));
void IteratorDictIDContiguous__delete(IteratorDictIDContiguous *it)
__CPROVER_requires(1) __CPROVER_ensures(1) __CPROVER_assigns();
//@ lowered
static StringDictionaryPFC *mk_pfc(size_t textlen) {
  StringDictionaryPFC *d = malloc(sizeof(StringDictionaryPFC)); __CPROVER_assume(d != NULL);
  d->textStrings = malloc(textlen); d->blStrings = malloc(sizeof(LogSequence));
  __CPROVER_assume(d->textStrings != NULL && d->blStrings != NULL);
  g_text_len = textlen; return d;
}
static uchar *mk_pat(void) { uchar *p = malloc(PATCAP); __CPROVER_assume(p != NULL); return p; }
void h_locatePrefix(void) {
  size_t in_textlen; __CPROVER_assume(in_textlen <= 4096 && gk < PATCAP);
  StringDictionaryPFC *d = mk_pfc(in_textlen); uchar *pat = mk_pat(); uint in_strlen;
  StringDictionaryPFC__locatePrefix(d, pat, in_strlen);
  REACH_POINT();
}
void h_locate(void) {
  size_t in_textlen; __CPROVER_assume(in_textlen <= 4096 && gk < PATCAP);
  StringDictionaryPFC *d = mk_pfc(in_textlen); uchar *pat = mk_pat(); uint in_strlen;
  /* ASSUMES: frame_locate only: bucketsize <= 15 and elements <= 255 (locate computes elements % bucketsize; a modulo by a symbolic divisor does not solve beyond these ranges). The pattern, the text and every other field are unconstrained. */
  __CPROVER_assume(d->bucketsize <= 15 && d->elements <= 255);
  StringDictionaryPFC__locate(d, pat, in_strlen);
  REACH_POINT();
}

//@ unit repair
//@ tu RePair/RePair.cpp
//@ class RePair
//@ class LogSequence tu=utils/LogSequence.cpp
//@ opaque DAC_VLS
//@ fn RePair::extractStringAndCompareRP
//@   requires(__CPROVER_r_ok(this, sizeof(*this)) && strLen <= 100000 && __CPROVER_rw_ok(str, (size_t)strLen + 1) && str[strLen] == 0 && !__CPROVER_same_object(str, this))
//@   requires(gk < strLen ==> str[gk] != this->maxchar)
//@   ensures(str[strLen] == 0)
//@   ensures(gk <= strLen ==> str[gk] == OLD(str[gk]))
//@   assigns(str[strLen])
//@   loop 1: assigns(l, pos, next, cmp)
//@   loop 1: invariant(str[strLen] == this->maxchar && (gk < strLen ==> str[gk] == __CPROVER_loop_entry(str[gk])))
//@ fn RePair::expandRule as=RePair__expandRule
//@ fn RePair::expandRuleAndCompareString as=RePair__expandRuleAndCompareString_real
//@ fn RePair::extractStringAndCompareDAC
//@ fn RePair::expandRuleAndComparePrefixDAC
//@ fn RePair::extractPrefixAndCompareDAC
//@ fn LogSequence::get_field tu=utils/LogSequence.cpp
//@ fn LogSequence::set_field tu=utils/LogSequence.cpp
//@ fn LogSequence::maxVal tu=utils/LogSequence.cpp
//@ fn LogSequence::bits tu=utils/LogSequence.cpp
//@ fn bits tu=libcds/src/bitsequence/BitSequenceRG.cpp
//@ fn LogSequence::numBytesFor tu=utils/LogSequence.cpp
//@ fn LogSequence::numElementsFor tu=utils/LogSequence.cpp
//@ fn LogSequence::save tu=utils/LogSequence.cpp
//@ fn LogSequence::ctor tu=utils/LogSequence.cpp sig=vstream_p
//@ fn RePair::ctor sig=0
//@ fn RePair::save sig=vstream_p__uint
//@ fn RePair::load
//@ global HASHRPDAC RPDAC HASHRPF RPFC
//@ ob rp_cmpRP_pattern entry=h_cmpRP enforce=RePair__extractStringAndCompareRP replace=LogSequence__getField,RePair__expandRuleAndCompareString loops tier=P props=C14,C07 kind=statement timeout=600
//@ ob rp_expandRule entry=h_expand tier=B props=C20,C07 kind=statement unwind=5 foreach=NRULES:1-2 timeout=900 defs=-DREAL_GETFIELD
//@ ob rp_expandRule3 entry=h_expand tier=B props=C20,C07 kind=statement unwind=9 mem=30 defs=-DREAL_GETFIELD,-DNRULES=3,-DT=4 timeout=1800 only=thorough
//@ ob rp_expandCompare entry=h_expcmp tier=B props=C20,C02,C01,C03 kind=statement unwind=7 foreach=NRULES:1-2 timeout=900 defs=-DREAL_GETFIELD,-DREAL_COMPARE
//@ ob rp_cmpRP_ref entry=h_cmpRP_ref tier=B props=C02,C01,C03 kind=statement unwind=7 unwindset=RePair__expandRuleAndCompareString_real:2,RePair__expandRuleAndCompareString:2 timeout=600 mem=30 defs=-DREAL_GETFIELD,-DREAL_COMPARE
//@ ob rp_cmpDAC_ref entry=h_cmpDAC_ref tier=B props=C03,C02,C01,C07 kind=statement unwind=7 unwindset=RePair__expandRuleAndCompareString_real:2,RePair__expandRuleAndCompareString:2 timeout=900 mem=30 defs=-DREAL_GETFIELD,-DREAL_COMPARE
//@ ob rp_pfxDAC_ref entry=h_pfxDAC_ref tier=B props=C04,C03,C07 kind=statement unwind=7 unwindset=RePair__expandRuleAndComparePrefixDAC:2 timeout=900 mem=30 defs=-DREAL_GETFIELD,-DREAL_COMPARE
//@ ob rp_bits entry=h_bits tier=C props=C20 kind=statement unwind=34
//@ ob rp_saveload entry=h_rp_sl tier=C props=C20,C06,C08 kind=statement unwind=20 foreach=ENC:0-1
size_t gk;
#include "vstream.h"
//@ structs
/* TRUSTED: DAC_VLS save/load are checked in unit dac; here they transfer the object */
void DAC_VLS__save(DAC_VLS *this, struct vstream *fp);
DAC_VLS *DAC_VLS__load(struct vstream *fp);
/* the per-string symbol lists of the DAC kinds: in the two reference-comparison harnesses below the list of the one stored string is an array (DAC_VLS itself: unit dac) */
uint DAC_VLS__access_next(DAC_VLS *this, uint l, uint *id);
/* TRUSTED: interface contracts used by the pattern-preservation obligation: the packed sequence returns some symbol; the recursive comparison moves *pos and writes nothing else (its own frame is the same shape; it never writes through str) */
#ifndef REAL_COMPARE
int RePair__expandRuleAndCompareString(RePair *this, uint rule, uchar *str, uint *pos)
__CPROVER_requires(__CPROVER_rw_ok(pos, sizeof(uint))) __CPROVER_ensures(1) __CPROVER_assigns(*pos);
#else
int RePair__expandRuleAndCompareString(RePair *this, uint rule, uchar *str, uint *pos);
#endif
#ifdef REAL_GETFIELD
size_t LogSequence__getField(LogSequence *this, size_t position);
#else
size_t LogSequence__getField(LogSequence *this, size_t position)
__CPROVER_requires(1) __CPROVER_ensures(1) __CPROVER_assigns();
#endif
//@ lowered
#ifdef REAL_GETFIELD
size_t LogSequence__getField(LogSequence *this, size_t position) { return LogSequence__get_field(this, this->array, this->numbits, position); }
#endif
void h_cmpRP(void) {
  RePair *rp = malloc(sizeof(RePair)); __CPROVER_assume(rp != NULL);
  uint in_len, in_id; __CPROVER_assume(in_len <= 100000 && gk <= in_len);
  uchar *s = malloc((size_t)in_len + 1); __CPROVER_assume(s != NULL);
  RePair__extractStringAndCompareRP(rp, in_id, s, in_len);
  REACH_POINT();
}
/* C20 (bounded): expansion of an acyclic grammar of NRULES rules over terminals < T reproduces the reference expansion */
#ifndef NRULES
#define NRULES 2
#endif
#ifndef T
#define T 200   /* terminals are byte values: the alphabet spans both sides of 0x80, so signed/unsigned byte comparisons differ */
#endif
#define NB 9
/* precondition of extractStringAndCompareRP (established by its only caller, HASHRPF::locate -- obligation hash2/hashrpf_locate):
 * the pattern does not hold the terminator symbol maxchar.  Without it the obligation fails (defect F17). */
#ifndef NO_TERMINATOR_IN_PATTERN
#define NO_TERMINATOR_IN_PATTERN && in_str[k] != MC
#endif
#define MAXEXP (1 << NRULES)
void h_expand(void) {
  static size_t words[1]; LogSequence g; g.numbits = NB; g.numentries = 2 * NRULES; g.arraysize = 1; g.maxval = (1 << NB) - 1; g.array = words;
  RePair rp; rp.G = &g; rp.terminals = T; rp.rules = NRULES; rp.maxchar = T;
  uint in_sym[2 * NRULES];
  uchar ref[NRULES][MAXEXP]; uint reflen[NRULES];
  for (int r = 0; r < NRULES; r++) {
    uint n = 0;
    for (int side = 0; side < 2; side++) {
      uint x = in_sym[2 * r + side];
      __CPROVER_assume(x >= 1 && x < T + (uint)r);            /* a rule refers to terminals (never the terminator 0) and earlier rules only */
      LogSequence__set_field(&g, words, NB, 2 * r + side, x);
      if (x < T) ref[r][n++] = (uchar)x;
      else { uint q = x - T; for (uint k = 0; k < MAXEXP; k++) if (k < reflen[q]) ref[r][n++] = ref[q][k]; }
    }
    reflen[r] = n;
  }
  uint in_rule; __CPROVER_assume(in_rule < NRULES);
  uchar out[MAXEXP];
  uint len = RePair__expandRule(&rp, in_rule, out);
  __CPROVER_assert(len == reflen[in_rule], "C20: expansion length");
  uint in_k; __CPROVER_assume(in_k < len);
  __CPROVER_assert(out[in_k] == ref[in_rule][in_k], "C20: expansion reproduces the symbols of the rule");
  __CPROVER_assert(out[in_k] != 0, "C20: no rule expands to the terminator symbol");
  REACH_POINT();
}
#ifdef REAL_COMPARE
/* the real body under its real name (the lowered copy is renamed so that the P-tier obligation can replace the call by a contract) */
int RePair__expandRuleAndCompareString(RePair *this, uint rule, uchar *str, uint *pos) { return RePair__expandRuleAndCompareString_real(this, rule, str, pos); }
#endif
/* C20/C02 (bounded): comparing a pattern with the expansion of a rule, without materialising it, agrees with comparing
 * it with the reference expansion: 0 iff the expansion occurs at *pos (and *pos moves past it), otherwise the sign of
 * the first difference */
void h_expcmp(void) {
  static size_t words[1]; LogSequence g; g.numbits = NB; g.numentries = 2 * NRULES; g.arraysize = 1; g.maxval = (1 << NB) - 1; g.array = words;
  RePair rp; rp.G = &g; rp.terminals = T; rp.rules = NRULES; rp.maxchar = T;
  uint in_sym[2 * NRULES];
  uchar ref[NRULES][MAXEXP]; uint reflen[NRULES];
  for (int r = 0; r < NRULES; r++) {
    uint n = 0;
    for (int side = 0; side < 2; side++) {
      uint x = in_sym[2 * r + side];
      __CPROVER_assume(x >= 1 && x < T + (uint)r);
      LogSequence__set_field(&g, words, NB, 2 * r + side, x);
      if (x < T) ref[r][n++] = (uchar)x;
      else { uint q = x - T; for (uint k = 0; k < MAXEXP; k++) if (k < reflen[q]) ref[r][n++] = ref[q][k]; }
    }
    reflen[r] = n;
  }
  uint in_rule; __CPROVER_assume(in_rule < NRULES);
  uchar in_str[MAXEXP + 2]; in_str[MAXEXP + 1] = T;       /* the caller's sentinel (maxchar) ends every comparison */
  for (int k = 0; k <= MAXEXP; k++) __CPROVER_assume(in_str[k] <= T);
  uint in_len; __CPROVER_assume(in_len <= MAXEXP); in_str[in_len] = T;
  uint pos = 0;
  int cmp = RePair__expandRuleAndCompareString(&rp, in_rule, in_str, &pos);
  int expect = 0; uint j = 0;
  for (uint k = 0; k < MAXEXP; k++) if (expect == 0 && k < reflen[in_rule]) { if (ref[in_rule][k] != in_str[k]) expect = (int)ref[in_rule][k] - (int)in_str[k]; else j++; }
  __CPROVER_assert((cmp == 0) == (expect == 0), "C20/C02: the rule compares equal exactly when its expansion occurs in the pattern");
  __CPROVER_assert(expect == 0 || ((cmp > 0) == (expect > 0)), "C20: otherwise the sign of the first difference is returned");
  __CPROVER_assert(expect != 0 || pos == reflen[in_rule], "C20: on a match the position moves past the expansion");
  REACH_POINT();
}
/* C02/C01 (bounded): the comparison of a pattern with a string stored in the packed sequence (symbols and rules, ended by
 * the symbol maxchar) returns 0 exactly when the stored string is the pattern; when they differ inside both, the sign is
 * that of the first differing unsigned byte.  Sequence of at most 3 symbols + terminator, one rule, patterns up to 5 bytes. */
#define MC 200
#define PATMAX 5
void h_cmpRP_ref(void) {
  static size_t gw[1], cw[1]; LogSequence g, cls;
  g.numbits = NB; g.numentries = 2; g.arraysize = 1; g.maxval = (1 << NB) - 1; g.array = gw;
  cls.numbits = NB; cls.numentries = 4; cls.arraysize = 1; cls.maxval = (1 << NB) - 1; cls.array = cw;
  RePair rp; rp.G = &g; rp.Cls = &cls; rp.terminals = MC + 1; rp.rules = 1; rp.maxchar = MC;
  uint in_r0, in_r1; __CPROVER_assume(in_r0 >= 1 && in_r0 < MC && in_r1 >= 1 && in_r1 < MC);     /* a rule holds member bytes only */
  LogSequence__set_field(&g, gw, NB, 0, in_r0); LogSequence__set_field(&g, gw, NB, 1, in_r1);
  uint in_c[3]; uchar stored[6]; uint slen = 0; int ended = 0;
  for (int k = 0; k < 3; k++) {
    __CPROVER_assume(in_c[k] >= 1 && in_c[k] <= MC + 1);
    LogSequence__set_field(&cls, cw, NB, k, in_c[k]);
    if (!ended) { if (in_c[k] == MC) ended = 1; else if (in_c[k] == MC + 1) { stored[slen++] = (uchar)in_r0; stored[slen++] = (uchar)in_r1; } else stored[slen++] = (uchar)in_c[k]; }
  }
  LogSequence__set_field(&cls, cw, NB, 3, MC);
  uchar in_str[PATMAX + 1]; uint in_len; __CPROVER_assume(in_len <= PATMAX);
  for (uint k = 0; k < PATMAX; k++) if (k < in_len) __CPROVER_assume(in_str[k] != 0 NO_TERMINATOR_IN_PATTERN);
  in_str[in_len] = 0;
  int cmp = RePair__extractStringAndCompareRP(&rp, 0, in_str, in_len);
  int same = slen == in_len; int firstdiff = 0;
  for (uint k = 0; k < PATMAX; k++) if (k < slen && k < in_len && firstdiff == 0 && stored[k] != in_str[k]) { firstdiff = (int)stored[k] - (int)in_str[k]; same = 0; }
  __CPROVER_assert((cmp == 0) == same, "C02/C01: the stored string compares equal exactly when it is the pattern");
  __CPROVER_assert(firstdiff == 0 || (cmp > 0) == (firstdiff > 0), "C03: a difference inside both strings is reported with the sign of the unsigned byte difference");
  REACH_POINT();
}
/* C03/C02/C01 (bounded): the comparison used by RPDAC's binary search and HASHRPDAC's probes.  The stored string is a
 * list of 1..3 symbols (terminals 1..MC, one rule of two terminals); the pattern has up to 5 arbitrary non-zero bytes and
 * sits at the very end of its buffer, so that a read past its terminator is a bounds violation.  Result: sign of the
 * unsigned-byte lexicographic comparison stored vs pattern (a proper prefix is smaller), 0 exactly for equality. */
static uint g_list[3]; static uint g_listlen;
uint DAC_VLS__access_next(DAC_VLS *this, uint l, uint *id) { __CPROVER_assert(l < g_listlen, "symbol list read inside the stored string"); if (l + 1 == g_listlen) *id = (uint)-1; return g_list[l]; }
static uint dac_ref_setup(RePair *rp, LogSequence *g, size_t *gw, uchar *stored) {
  g->numbits = NB; g->numentries = 2; g->arraysize = 1; g->maxval = (1 << NB) - 1; g->array = gw;
  rp->G = g; rp->terminals = MC + 1; rp->rules = 1; rp->maxchar = MC;
  uint in_r0, in_r1; __CPROVER_assume(in_r0 >= 1 && in_r0 <= MC && in_r1 >= 1 && in_r1 <= MC);
  LogSequence__set_field(g, gw, NB, 0, in_r0); LogSequence__set_field(g, gw, NB, 1, in_r1);
  uint in_n; __CPROVER_assume(in_n >= 1 && in_n <= 3); g_listlen = in_n; uint slen = 0;
  for (uint k = 0; k < 3; k++) if (k < in_n) {
    uint in_c; __CPROVER_assume(in_c >= 1 && in_c <= MC + 1); g_list[k] = in_c;
    if (in_c == MC + 1) { stored[slen++] = (uchar)in_r0; stored[slen++] = (uchar)in_r1; } else stored[slen++] = (uchar)in_c;
  }
  return slen;
}
void h_cmpDAC_ref(void) {
  static size_t gw[1]; LogSequence g; RePair rp; uchar stored[6];
  uint slen = dac_ref_setup(&rp, &g, gw, stored);
  uchar buf[PATMAX + 1]; uint in_len; __CPROVER_assume(in_len <= PATMAX); uchar *in_str = buf + (PATMAX - in_len);
  for (uint k = 0; k < PATMAX; k++) if (k < in_len) __CPROVER_assume(in_str[k] != 0);
  in_str[in_len] = 0;
  int cmp = RePair__extractStringAndCompareDAC(&rp, 1, in_str, in_len);
  int expect = 0;
  for (uint k = 0; k <= PATMAX; k++) if (expect == 0) {
    int a = k < slen ? stored[k] : 0, b = k < in_len ? in_str[k] : 0;
    if (a != b) expect = a - b; else if (a == 0) break;
  }
  __CPROVER_assert((cmp == 0) == (expect == 0), "C02/C01: compares equal exactly when the stored string is the pattern");
  __CPROVER_assert(expect == 0 || (cmp > 0) == (expect > 0), "C03: otherwise the sign of the unsigned-byte lexicographic comparison (a proper prefix is smaller)");
  REACH_POINT();
}
/* C04 (bounded): the prefix comparison behind RPDAC::locatePrefix: 0 exactly when the stored string starts with the
 * (non-empty) prefix, otherwise the sign of the lexicographic comparison */
void h_pfxDAC_ref(void) {
  static size_t gw[1]; LogSequence g; RePair rp; uchar stored[6];
  uint slen = dac_ref_setup(&rp, &g, gw, stored);
  uchar buf[PATMAX + 1]; uint in_len; __CPROVER_assume(in_len >= 1 && in_len <= PATMAX); uchar *in_str = buf + (PATMAX - in_len);
  for (uint k = 0; k < PATMAX; k++) if (k < in_len) __CPROVER_assume(in_str[k] != 0);
  in_str[in_len] = 0;
  int cmp = RePair__extractPrefixAndCompareDAC(&rp, 1, in_str, in_len);
  int expect = 0;
  for (uint k = 0; k < PATMAX; k++) if (expect == 0 && k < in_len) {
    int a = k < slen ? stored[k] : 0, b = in_str[k];
    if (a != b) expect = a - b;
  }
  __CPROVER_assert((cmp == 0) == (expect == 0), "C04: 0 exactly when the stored string starts with the prefix");
  __CPROVER_assert(expect == 0 || (cmp > 0) == (expect > 0), "C04/C03: otherwise the sign of the unsigned-byte comparison at the first difference (a stored string that ends first is smaller)");
  REACH_POINT();
}
/* C20: the number of bits reported for a symbol suffices for every terminal and rule identifier (32-bit sums) */
void h_bits(void) {
  LogSequence ls; uint in_total, in_x;
  __CPROVER_assume(in_total >= 1 && in_x < in_total);
  uint b = bits(in_total);
  __CPROVER_assert(b >= 1 && b <= 32 && in_x <= LogSequence__maxVal(&ls, b), "C20: x < rules+terminals fits in bits(rules+terminals) bits, so setField never rejects it");
  REACH_POINT();
}

static DAC_VLS *g_saved_dac;
void DAC_VLS__save(DAC_VLS *this, struct vstream *fp) { g_saved_dac = this; }
DAC_VLS *DAC_VLS__load(struct vstream *fp) { return g_saved_dac; }
#ifndef ENC
#define ENC 0
#endif
/* C20/C06: the grammar (and the choice of sequence representation) survives save/load unchanged */
void h_rp_sl(void) {
  static size_t gw[2], cw[1]; LogSequence g, cls; static struct { char c; } dacobj;
  g.numbits = 9; g.numentries = 6; g.arraysize = 1; g.maxval = 511; g.array = gw; size_t in_g0; gw[0] = in_g0; gw[1] = 0;
  cls.numbits = 9; cls.numentries = 5; cls.arraysize = 1; cls.maxval = 511; cls.array = cw; size_t in_c0; cw[0] = in_c0;
  RePair rp; uchar in_maxchar; uint64_t in_terminals, in_rules;
  rp.G = &g; rp.Cls = &cls; rp.Cdac = (DAC_VLS *)&dacobj; rp.maxchar = in_maxchar; rp.terminals = in_terminals; rp.rules = in_rules;
  uint enc = ENC ? HASHRPDAC : HASHRPF;
  static uchar buf[128]; struct vstream out = {buf, 0, 128}, in;
  RePair__save__vstream_p__uint(&rp, &out, enc);
  in = out; in.pos = 0;
  RePair *l = RePair__load(&in);
  __CPROVER_assert(in.pos == out.pos, "C06: load consumes exactly the bytes save wrote");
  __CPROVER_assert(l->maxchar == in_maxchar && l->terminals == in_terminals && l->rules == in_rules, "C20: grammar header unchanged after save/load");
  __CPROVER_assert(l->G->numbits == 9 && l->G->numentries == 6 && l->G->array[0] == in_g0, "C20: rule array unchanged after save/load");
  if (ENC) __CPROVER_assert(l->Cdac == (DAC_VLS *)&dacobj, "C20: DAC-encoded sequence reloaded for the DAC kinds");
  else __CPROVER_assert(l->Cls->numentries == 5 && l->Cls->array[0] == in_c0, "C20: packed sequence reloaded for the other kinds");
  REACH_POINT();
}

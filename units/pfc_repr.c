//@ unit pfc_repr
//@ tu StringDictionaryPFC.cpp
//@ class StringDictionary
//@ class StringDictionaryPFC
//@ class LogSequence tu=utils/LogSequence.cpp
//@ class VByte tu=utils/VByte.cpp
//@ class IteratorDictString
//@ class IteratorDictID
//@ class IteratorDictIDContiguous
//@ class IteratorDictStringPFC
//@ fn LogSequence::get_field tu=utils/LogSequence.cpp
//@ fn LogSequence::set_field tu=utils/LogSequence.cpp
//@ fn LogSequence::maxVal tu=utils/LogSequence.cpp
//@ fn LogSequence::numElementsFor tu=utils/LogSequence.cpp
//@ fn LogSequence::getField tu=utils/LogSequence.cpp
//@ fn LogSequence::setField tu=utils/LogSequence.cpp
//@ fn LogSequence::ctor tu=utils/LogSequence.cpp sig=vec_size_t_p__unsigned_int
//@ fn LogSequence::ctor tu=utils/LogSequence.cpp sig=unsigned_int__size_t
//@ fn VByte::encode tu=utils/VByte.cpp
//@ fn VByte::decode tu=utils/VByte.cpp
//@ fn bits
//@ fn longestCommonPrefix
//@ fn Reallocate sig=uchar_p_p__size_t
//@ fn IteratorDictIDContiguous::ctor
//@ fn IteratorDictIDContiguous::next
//@ fn IteratorDictIDContiguous::getLeftLimit
//@ fn IteratorDictIDContiguous::getRightLimit
//@ fn IteratorDictID::hasNext
//@ fn IteratorDictStringPFC::ctor
//@ fn IteratorDictStringPFC::hasNext
//@ fn IteratorDictStringPFC::next
//@ fn IteratorDictStringPFC::decodeNext
//@ fn StringDictionaryPFC::ctor sig=0
//@ fn StringDictionaryPFC::ctor sig=IteratorDictString_p__uint
//@ fn StringDictionaryPFC::locate
//@ fn StringDictionaryPFC::extract
//@ fn StringDictionaryPFC::locatePrefix
//@ fn StringDictionaryPFC::extractPrefix
//@ fn StringDictionaryPFC::extractTable
//@ fn StringDictionaryPFC::locateRank
//@ fn StringDictionaryPFC::extractRank
//@ fn StringDictionaryPFC::getHeader
//@ fn StringDictionaryPFC::decodeNextString
//@ fn StringDictionaryPFC::locateBucket
//@ fn StringDictionaryPFC::locateBoundaryBuckets
//@ fn StringDictionaryPFC::searchPrefix
//@ fn StringDictionaryPFC::searchDistinctPrefix
//@ fn StringDictionary::numElements tu=StringDictionary.cpp
//@ fn StringDictionary::maxLength tu=StringDictionary.cpp
//@ ob pfc_ctor entry=h_ctor tier=B props=C01,C03,C07,C12,C15 kind=representation defs=-DMEMALLOC=32 unwind_extra=2 timeout=900 replay=pfc grid=pfc gridskip=5x3b5+6x2b6+6x2b3+5x2b5
//@ ob pfc_ctor_clamp entry=h_ctor_clamp tier=B props=C12 kind=statement defs=-DMEMALLOC=32,-DNS=3,-DML=2,-DBS=2 unwind=7 timeout=900 replay=pfc foreach=BSARG:0-1
//@ ob pfc_grow entry=h_ctor tier=B props=C07 kind=statement defs=-DNS=2,-DML=1,-DBS=2 unwind=8 timeout=1200 mem=24 replay=pfc_grow foreach=MEMALLOC:1-3
//@ ob pfc_grow_long entry=h_ctor tier=B props=C07 kind=statement defs=-DNS=1,-DML=6,-DBS=2,-DMEMALLOC=1 unwind=10 timeout=1200 mem=24 replay=pfc_grow
//@ ob pfc_extract entry=h_extract tier=B props=C01,C03,C02,C07,C12,C15 kind=representation unwindset=mk_dict.0:40 timeout=900 replay=pfc grid=pfc gridskip=5x3b5+6x2b6+6x2b3+5x2b5
//@ ob pfc_locate entry=h_locate tier=B props=C01,C03,C07,C12,C14 kind=representation unwindset=mk_dict.0:40 timeout=900 replay=pfc grid=pfc gridskip=5x3b5+6x2b6+6x2b3+5x2b5
//@ ob pfc_rank entry=h_rank tier=B props=C03,C14,C15 kind=representation unwindset=mk_dict.0:40 timeout=900 replay=pfc grid=pfc gridskip=5x3b5+6x2b6+6x2b3+5x2b5
//@ ob pfc_absent entry=h_absent tier=B props=C02,C07,C14 kind=representation unwindset=mk_dict.0:40 timeout=900 replay=pfc grid=pfc gridskip=5x3b5+6x2b6+6x2b3+5x2b5
//@ ob pfc_prefix entry=h_prefix tier=B props=C04,C07,C13,C14 kind=representation unwindset=mk_dict.0:40 timeout=900 replay=pfc grid=pfc quickgrid=1x2b2+2x1b2+3x2b2+3x2b3 gridonly=1x2b2+2x1b2+3x2b2+3x2b3+4x2b2+2x3b2+4x2b3 ttimeout=2400
//@ ob pfc_extractPrefix entry=h_extractPrefix tier=B props=C04,C13,C07 kind=representation unwindset=mk_dict.0:40 timeout=900 replay=pfc grid=pfc quickgrid=1x2b2+2x1b2+3x2b2+3x2b3 gridonly=1x2b2+2x1b2+3x2b2+3x2b3+4x2b2+2x3b2+4x2b3 ttimeout=2400
//@ ob pfc_table entry=h_table tier=B props=C13,C07 kind=representation unwindset=mk_dict.0:40 timeout=900 replay=pfc grid=pfc gridskip=5x3b5+6x2b6+6x2b3+5x2b5
#include "vec.h"
DEFINE_VEC(size_t, vec_size_t)
//@ structs
#include "pfc_repr.h"
/* input iterator model (a derived class of IteratorDictString in C++ terms; the real one is IteratorDictStringPlain):
 * yields strs[0..scanneable) with their strlen */
struct InputIt { struct IteratorDictString base; uchar (*strs)[ML + 1]; };
bool IteratorDictString__hasNext(IteratorDictString *it) { return it->processed < it->scanneable; }
uchar *IteratorDictString__next(IteratorDictString *it, uint *len) {
  struct InputIt *m = (struct InputIt *)it; uchar *s = m->strs[it->processed++]; *len = strlen((char *)s); return s; }
void IteratorDictString__delete(IteratorDictString *it) { (void)it; }
void IteratorDictIDContiguous__delete(IteratorDictIDContiguous *it) { free(it); }
void IteratorDictID__delete(IteratorDictID *it) { free(it); }
//@ lowered
/* ctor == repr: counters, maxlength, every text byte, every bucket offset */
static void check_ctor(uint bsarg) {
  struct pfc_in in; struct pfc_repr r;
  sd_symbolic_set(&in);
  repr_pfc(&in, &r);
  struct InputIt it = {{0, NS, 0}, in.strs};
  StringDictionaryPFC d;
  StringDictionaryPFC__ctor__IteratorDictString_p__uint(&d, (IteratorDictString *)&it, bsarg);
  __CPROVER_assert(d.type == PFC, "ctor: type tag");
  __CPROVER_assert(d.elements == NS, "C15 ctor: elements == number of strings supplied");
  __CPROVER_assert(d.maxlength == ML + 1, "C15 ctor: maxlength == longest length + 1");
  __CPROVER_assert(d.buckets == r.nb && d.bucketsize == BS && d.bytesStrings == r.p, "ctor: buckets, bucketsize, bytesStrings match the reference representation");
  size_t k; __CPROVER_assume(k < r.p);
  __CPROVER_assert(d.textStrings[k] == r.text[k], "ctor: text bytes match the reference representation");
  uint b; __CPROVER_assume(b <= r.nb + 1);
  __CPROVER_assert(LogSequence__getField(d.blStrings, b) == r.off[b], "ctor: bucket offsets match the reference representation");
  __CPROVER_assert(d.blStrings->numentries == r.nb + 2, "ctor: index has buckets+2 entries");
}
void h_ctor(void) { check_ctor(BS); REACH_POINT(); }
/* C12: a bucket size below 2 is replaced by 2 and the dictionary is the one built with 2 */
#ifndef BSARG
#define BSARG 1
#endif
void h_ctor_clamp(void) { check_ctor(BSARG); REACH_POINT(); }
/* dictionary object over the reference representation.  The text ends exactly at the end of a fixed-size object
 * (concrete object size, symbolic offset): any read past the last byte of the representation is out of bounds
 * and is reported.  The bucket index is a LogSequence of width 8 filled through the real set_field. */
static size_t g_bl[(NB + 2 + 7) / 8];
static LogSequence g_ls;
static void mk_dict(const struct pfc_in *in, struct pfc_repr *r, StringDictionaryPFC *d) {
  d->type = PFC; d->elements = NS; d->maxlength = ML + 1; d->buckets = r->nb; d->bucketsize = BS; d->bytesStrings = r->p;
  uchar *buf = malloc(TEXTCAP); __CPROVER_assume(buf != NULL);
  d->textStrings = buf + (TEXTCAP - r->p);
  for (size_t k = 0; k < TEXTCAP; k++) if (k < r->p) d->textStrings[k] = r->text[k];
  g_ls.numbits = 8; g_ls.arraysize = (NB + 2 + 7) / 8; g_ls.numentries = NB + 2; g_ls.maxval = 255; g_ls.array = g_bl;
  for (uint b = 0; b < NB + 2; b++) LogSequence__set_field(&g_ls, g_bl, 8, b, r->off[b]);
  d->blStrings = &g_ls;
}
static uint symbolic_pattern(uchar *q, uint minlen) {
  uint l; __CPROVER_assume(l >= minlen && l <= ML + 1);
  for (int k = 0; k <= ML + 1; k++) { uchar c; if (k < l) { __CPROVER_assume(c != 0); q[k] = c; } else q[k] = 0; }
  return l;
}
#define SETUP struct pfc_in in; struct pfc_repr r; StringDictionaryPFC d; sd_symbolic_set(&in); repr_pfc(&in, &r); mk_dict(&in, &r, &d)
/* C01/C03: extract(k+1) == S[k] (bytes, NUL, length); C02: bad IDs; C15 metadata accessors */
void h_extract(void) {
  SETUP;
  uint in_k; __CPROVER_assume(in_k < NS);
  uint ol = 77; uchar *s = StringDictionaryPFC__extract(&d, (size_t)in_k + 1, &ol);
  __CPROVER_assert(s != NULL, "C01: extract of a valid ID is not NULL");
  __CPROVER_assert(ol == in.len[in_k], "C01: reported length == strlen");
  __CPROVER_assert(sd_cmp(s, in.strs[in_k]) == 0 && s[ol] == 0, "C01/C03: extract(k+1) == k-th smallest member, NUL-terminated");
  __CPROVER_assert(StringDictionary__numElements((StringDictionary *)&d) == NS, "C15: numElements");
  __CPROVER_assert(StringDictionary__maxLength((StringDictionary *)&d) >= ol, "C15: maxLength bounds every member");
  size_t in_bad; __CPROVER_assume(in_bad == 0 || in_bad > NS);
  uint bl = 77; uchar *sb = StringDictionaryPFC__extract(&d, in_bad, &bl);
  __CPROVER_assert(sb == NULL && bl == 0, "C02: extract of ID 0 or > n gives NULL, length 0");
  REACH_POINT();
}
/* C01/C03: locate(S[k]) == k+1; C14 pattern intact */
void h_locate(void) {
  SETUP;
  uint in_k; __CPROVER_assume(in_k < NS);
  uchar pat[ML + 1]; for (int i = 0; i <= ML; i++) pat[i] = in.strs[in_k][i];
  unsigned long id = StringDictionaryPFC__locate(&d, pat, in.len[in_k]);
  __CPROVER_assert(id == (unsigned long)in_k + 1, "C01/C03: locate(S[k]) == k+1 (rank)");
  for (int i = 0; i <= ML; i++) __CPROVER_assert(pat[i] == in.strs[in_k][i], "C14: pattern buffer unchanged by locate");
  REACH_POINT();
}
/* C03 rank operations, C14 repeatability */
void h_rank(void) {
  SETUP;
  uint in_k; __CPROVER_assume(in_k < NS);
  __CPROVER_assert(StringDictionaryPFC__locateRank(&d, in_k + 1) == in_k + 1, "C03: locateRank(k) == k");
  uint ol; uchar *s = StringDictionaryPFC__extractRank(&d, in_k + 1, &ol);
  __CPROVER_assert(s != NULL && ol == in.len[in_k] && sd_cmp(s, in.strs[in_k]) == 0, "C03: extractRank(k) == k-th smallest member");
  uint ol3; uchar *s3 = StringDictionaryPFC__extract(&d, (size_t)in_k + 1, &ol3);
  __CPROVER_assert(s3 != NULL && ol3 == ol && sd_cmp(s3, s) == 0, "C14/C03: extract(locateRank(k)) gives the same answer again");
  REACH_POINT();
}
/* C02: a non-member is not located */
void h_absent(void) {
  SETUP;
  uchar in_q[ML + 2]; uint in_qlen = symbolic_pattern(in_q, 1);
  int member = 0; for (int i = 0; i < NS; i++) if (sd_cmp(in_q, in.strs[i]) == 0) member = 1;
  uchar keep[ML + 2]; for (int i = 0; i < ML + 2; i++) keep[i] = in_q[i];
  unsigned long id = StringDictionaryPFC__locate(&d, in_q, in_qlen);
  __CPROVER_assert(member || id == NORESULT, "C02: locate of a non-member returns NORESULT");
  __CPROVER_assert(!member || (id >= 1 && id <= NS), "C01: locate of a member returns an ID in [1,n]");
  for (int i = 0; i < ML + 2; i++) __CPROVER_assert(keep[i] == in_q[i], "C14: pattern buffer unchanged by locate");
  REACH_POINT();
}
static void expected_range(const struct pfc_in *in, const uchar *p, uint plen, int *L, int *R) {
  *L = -1; *R = -1;
  for (int i = 0; i < NS; i++) if (sd_is_prefix(p, plen, in->strs[i], in->len[i])) { if (*L < 0) *L = i; *R = i; }
}
/* C04: locatePrefix yields exactly the contiguous ID range of the members that start with p */
void h_prefix(void) {
  SETUP;
  uchar in_q[ML + 2]; uint in_qlen = symbolic_pattern(in_q, 1);
  int L, R; expected_range(&in, in_q, in_qlen, &L, &R);
  IteratorDictIDContiguous *it = (IteratorDictIDContiguous *)StringDictionaryPFC__locatePrefix(&d, in_q, in_qlen);
  __CPROVER_assert(it != NULL, "C04: locatePrefix returns an iterator");
  size_t left = IteratorDictIDContiguous__getLeftLimit(it), right = IteratorDictIDContiguous__getRightLimit(it);
  if (L < 0) {
    __CPROVER_assert(left == NORESULT && right == NORESULT, "C04: no member starts with p => limits NORESULT");
    __CPROVER_assert(!IteratorDictID__hasNext((IteratorDictID *)it), "C04: no member starts with p => empty ID stream");
  } else {
    __CPROVER_assert(left == (size_t)L + 1 && right == (size_t)R + 1, "C04: ID range == [first, last] member that starts with p");
    size_t expect = (size_t)L + 1;
    for (int j = 0; j < NS; j++) {
      if (IteratorDictID__hasNext((IteratorDictID *)it)) {
        size_t got = IteratorDictIDContiguous__next(it);
        __CPROVER_assert(got == expect && got <= (size_t)R + 1, "C04/C13: IDs enumerated ascending, each once, within the range");
        expect++;
      }
    }
    __CPROVER_assert(expect == (size_t)R + 2 && !IteratorDictID__hasNext((IteratorDictID *)it), "C04/C13: exactly the IDs of the range, then hasNext is false");
  }
  REACH_POINT();
}
/* C04/C13: extractPrefix yields exactly those strings */
void h_extractPrefix(void) {
  SETUP;
  uchar in_q[ML + 2]; uint in_qlen = symbolic_pattern(in_q, 1);
  int L, R; expected_range(&in, in_q, in_qlen, &L, &R);
  IteratorDictStringPFC *it = (IteratorDictStringPFC *)StringDictionaryPFC__extractPrefix(&d, in_q, in_qlen);
  if (L < 0) {
    __CPROVER_assert(it == NULL, "C04: no member starts with p => no string is produced");
  } else {
    __CPROVER_assert(it != NULL, "C04: members start with p => an iterator");
    int idx = L;
    for (int j = 0; j < NS; j++) {
      if (IteratorDictStringPFC__hasNext(it)) {
        uint l = 77; uchar *s = IteratorDictStringPFC__next(it, &l);
        __CPROVER_assert(idx <= R, "C04/C13: no more strings than members that start with p");
        if (idx <= R) {
          __CPROVER_assert(l == in.len[idx] && sd_cmp(s, in.strs[idx]) == 0 && s[l] == 0, "C04/C13: j-th string is the j-th member that starts with p, NUL-terminated, length == strlen");
        }
        idx++;
      }
    }
    __CPROVER_assert(idx == R + 1 && !IteratorDictStringPFC__hasNext(it), "C04/C13: exactly those strings, then hasNext is false");
  }
  REACH_POINT();
}
/* C13: table scan */
void h_table(void) {
  SETUP;
  IteratorDictStringPFC *it = (IteratorDictStringPFC *)StringDictionaryPFC__extractTable(&d);
  __CPROVER_assert(it != NULL, "C13: extractTable returns an iterator");
  int idx = 0;
  for (int j = 0; j < NS + 1; j++) {
    if (IteratorDictStringPFC__hasNext(it)) {
      uint l = 77; uchar *s = IteratorDictStringPFC__next(it, &l);
      __CPROVER_assert(idx < NS, "C13: at most numElements strings");
      if (idx < NS) {
        __CPROVER_assert(l == in.len[idx] && sd_cmp(s, in.strs[idx]) == 0 && s[l] == 0, "C13: k-th string of the table scan == extract(k) == k-th member");
      }
      idx++;
    }
  }
  __CPROVER_assert(idx == NS && !IteratorDictStringPFC__hasNext(it), "C13: exactly numElements strings");
  REACH_POINT();
}

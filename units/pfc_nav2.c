//@ unit pfc_nav2
//@ tu StringDictionaryPFC.cpp
//@ class StringDictionary
//@ class StringDictionaryPFC
//@ class LogSequence tu=utils/LogSequence.cpp
//@ fn StringDictionaryPFC::getHeader
//@   requires(__CPROVER_r_ok(this, sizeof(*this)) && PFC_WF(this) && idbucket >= 1 && idbucket <= this->buckets && __CPROVER_w_ok(str, sizeof(uchar *)) && __CPROVER_w_ok(strLen, sizeof(uint)))
//@   ensures(__CPROVER_is_fresh(*str, this->maxlength) && *strLen < this->maxlength)
//@   ensures(__CPROVER_same_object(RET, this->textStrings) && OFFS(RET) >= 1 && OFFS(RET) <= this->bytesStrings)
//@   assigns(*str, *strLen)
//@ fn StringDictionaryPFC::decodeNextString
//@   requires(__CPROVER_r_ok(this, sizeof(*this)) && PFC_WF(this) && __CPROVER_rw_ok(ptr, sizeof(uchar *)) && __CPROVER_w_ok(strLen, sizeof(uint)))
//@   requires(__CPROVER_same_object(*ptr, this->textStrings) && OFFS(*ptr) < this->bytesStrings)
//@   requires(__CPROVER_rw_ok(str, this->maxlength) && OFFS(str) == 0 && OBJSZ(str) == this->maxlength && lenPrefix == g_prefix_len && !__CPROVER_same_object(str, this->textStrings))
//@   ensures(*strLen < this->maxlength && *strLen >= lenPrefix)
//@   ensures(__CPROVER_same_object(*ptr, this->textStrings) && OFFS(*ptr) <= this->bytesStrings)
//@   assigns(*ptr, *strLen, __CPROVER_object_whole(str))
//@ ob nav_getHeader entry=h_getHeader enforce=StringDictionaryPFC__getHeader replace=LogSequence__getField,strlen,memcpy tier=P props=C07,C01,C14 kind=representation timeout=600
//@ ob nav_decodeNextString entry=h_decodeNext enforce=StringDictionaryPFC__decodeNextString replace=strlen,memcpy tier=P props=C07,C01,C14 kind=representation timeout=600
size_t g_text_len, g_maxlen, g_prefix_len;
#define CSTR_OBJ(p) (__CPROVER_r_ok((p), 1) && ((const char *)(p))[OBJSZ(p) - OFFS(p) - 1] == 0)
/* TRUSTED: libc contracts. strlen in PFC context additionally promises the format invariant "a string stored in the text, appended to the prefix it is decoded onto, is shorter than maxlength" (I-PFC-len); it is discharged only in the bounded tier, where the constructor is checked to produce repr(S) with maxlength == longest + 1. */
size_t strlen(const char *s)
__CPROVER_requires(CSTR_OBJ(s))
__CPROVER_ensures(RET < OBJSZ(s) - OFFS(s) && s[RET] == 0 && RET + g_prefix_len < g_maxlen)
__CPROVER_assigns();
void *memcpy(void *dst, const void *src, size_t n)
__CPROVER_requires(__CPROVER_w_ok(dst, n) && __CPROVER_r_ok(src, n))
__CPROVER_ensures(RET == dst)
__CPROVER_assigns(__CPROVER_object_from(dst));
//@ structs
#define PFC_WF(d) ((d)->buckets >= 1 && (d)->buckets < (1u << 31) && (d)->bucketsize >= 2 && (d)->bytesStrings >= 2 && (d)->bytesStrings <= (1u << 30) && \
   (d)->bytesStrings == g_text_len && (d)->maxlength >= 1 && (d)->maxlength <= 65536 && (d)->maxlength == g_maxlen && \
   __CPROVER_r_ok((d)->textStrings, (d)->bytesStrings) && OFFS((d)->textStrings) == 0 && \
   OBJSZ((d)->textStrings) == (d)->bytesStrings && (d)->textStrings[(d)->bytesStrings - 1] == 0 && \
   __CPROVER_r_ok((d)->blStrings, sizeof(LogSequence)) && (d)->blStrings->numentries == (size_t)(d)->buckets + 2)
/* TRUSTED: interface contract of LogSequence::getField in PFC context (every bucket offset lies inside the text) */
size_t LogSequence__getField(LogSequence *this, size_t position)
__CPROVER_requires(__CPROVER_r_ok(this, sizeof(LogSequence)) && position < this->numentries)
__CPROVER_ensures(RET < g_text_len)
__CPROVER_assigns();
//@ lowered
static StringDictionaryPFC *mk_pfc(size_t textlen) {
  StringDictionaryPFC *d = malloc(sizeof(StringDictionaryPFC)); __CPROVER_assume(d != NULL);
  d->textStrings = malloc(textlen); d->blStrings = malloc(sizeof(LogSequence));
  __CPROVER_assume(d->textStrings != NULL && d->blStrings != NULL);
  g_text_len = textlen; return d;
}
void h_getHeader(void) {
  size_t in_textlen; __CPROVER_assume(in_textlen <= 100000);
  StringDictionaryPFC *d = mk_pfc(in_textlen); g_maxlen = d->maxlength; g_prefix_len = 0;
  size_t in_b; uchar *out; uint len;
  StringDictionaryPFC__getHeader(d, in_b, &out, &len);
  REACH_POINT();
}
void h_decodeNext(void) {
  size_t in_textlen; __CPROVER_assume(in_textlen <= 100000);
  StringDictionaryPFC *d = mk_pfc(in_textlen); g_maxlen = d->maxlength;
  uint in_prefix; g_prefix_len = in_prefix;
  size_t in_off; __CPROVER_assume(in_off < in_textlen);
  uchar *p = d->textStrings + in_off;
  size_t cap; __CPROVER_assume(cap <= 65536); uchar *dec = malloc(cap); __CPROVER_assume(dec != NULL);
  uint len;
  StringDictionaryPFC__decodeNextString(d, &p, in_prefix, dec, &len);
  REACH_POINT();
}

//@ unit rg
//@ tu libcds/src/bitsequence/BitSequenceRG.cpp
//@ class BitSequence
//@ class BitSequenceRG
//@ opaque BitString
//@ global __popcount_tab select_tab prev_tab W mask31
//@ fn popcount
//@ fn popcount8
//@ fn uint_len
//@ fn bits
//@ fn BitSequenceRG::ctor sig=uint_p__size_t__uint
//@ fn BitSequenceRG::ctor sig=0
//@ fn BitSequenceRG::BuildRank
//@ fn BitSequenceRG::BuildRankSub
//@ fn BitSequenceRG::rank1
//@ fn BitSequenceRG::access
//@ fn BitSequenceRG::select1
//@ fn BitSequenceRG::select0
//@ fn BitSequenceRG::selectNext1
//@ fn BitSequenceRG::save
//@ fn BitSequenceRG::load
//@ fn BitSequence::rank0 tu=libcds/src/bitsequence/BitSequence.cpp
//@ ob rg_popcount entry=h_popcount tier=C props=C19 kind=statement
//@ ob rg_rank entry=h_rg_rank tier=B props=C19,C07 kind=statement grid=rg nochecks=undefined-shift-check timeout=1200 gridskip=n63f2+n64f1+n65f2+n70f2+n96f1+n97f4+n128f4+n129f4 ttimeout=2400
//@ ob rg_select1 entry=h_rg_select1 tier=B props=C19,C07 kind=statement grid=rg nochecks=undefined-shift-check timeout=1200 gridskip=n63f2+n64f1+n65f2+n70f2+n96f1+n97f4+n128f4+n129f4 ttimeout=2400
//@ ob rg_select0 entry=h_rg_select0 tier=B props=C19,C07 kind=statement grid=rg nochecks=undefined-shift-check timeout=1200 gridskip=n63f2+n64f1+n65f2+n70f2+n96f1+n97f4+n128f4+n129f4 ttimeout=2400
//@ ob rg_saveload entry=h_rg_sl tier=B props=C19,C06,C08,C07 kind=statement grid=rg gridonly=n33f1+n40f2+n1f1+n32f1 quickgrid=n32f1+n33f1+n1f1 nochecks=undefined-shift-check timeout=1200
//@ ob rg_access entry=h_access tier=C props=C19,C07 kind=statement
#define VSTREAM_LOOP_COPY
#include "vstream.h"
#define BRW32_HDR_ 2
//@ structs
size_t BitSequence__rank1(BitSequence *this, size_t i);
//@ lowered
/* BitSequence::rank0 calls the virtual rank1: bound to the RG implementation, the only one used by the dictionaries' hash bitmaps and DAC levels */
size_t BitSequence__rank1(BitSequence *this, size_t i) { return BitSequenceRG__rank1((BitSequenceRG *)this, i); }
#ifndef N
#define N 40
#endif
#ifndef FACTOR
#define FACTOR 1
#endif
#define NWORDS (N / 32 + 1)
static int bit(const uint *w, size_t i) { return (w[i / 32] >> (i % 32)) & 1; }
static size_t naive_rank1(const uint *w, size_t i) { size_t c = 0; for (size_t k = 0; k < N; k++) if (k <= i && bit(w, k)) c++; return c; }
static void symbolic_bits(uint *w) {
  for (int k = 0; k < NWORDS; k++) { uint v; w[k] = v; }
  /* callers build the array with bitset on a zeroed buffer: bits at positions >= N are 0 */
  for (size_t k = N; k < (size_t)NWORDS * 32; k++) __CPROVER_assume(!bit(w, k));
}
void h_popcount(void) {
  uint in_x; uint c = 0;
  for (int k = 0; k < 32; k++) c += (in_x >> k) & 1;
  __CPROVER_assert(popcount((int)in_x) == c, "C19: popcount(x) == number of set bits, all 2^32 values");
  uint c8 = 0; for (int k = 0; k < 8; k++) c8 += (in_x >> k) & 1;
  __CPROVER_assert(popcount8((int)in_x) == c8, "C19: popcount8(x) == set bits of the low byte");
  REACH_POINT();
}
void h_access(void) {
  BitSequenceRG rg; uint in_w[4]; size_t in_i; __CPROVER_assume(in_i < 128);
  rg.data = in_w;
  __CPROVER_assert(BitSequenceRG__access(&rg, in_i) == (bool)bit(in_w, in_i), "C19: access(i) is bit i of the plain vector");
  REACH_POINT();
}
/* C19: access/rank1/rank0/select1/select0 == plain definitions on an arbitrary bit vector of N bits */
#define RG_SETUP uint in_w[NWORDS]; symbolic_bits(in_w); BitSequenceRG rg; BitSequenceRG__ctor__uint_p__size_t__uint(&rg, in_w, N, FACTOR); size_t total = naive_rank1(in_w, N - 1)
void h_rg_rank(void) {
  RG_SETUP;
  __CPROVER_assert(rg.length == N && rg.ones == total, "C19: length and number of ones");
  size_t in_i; __CPROVER_assume(in_i < N);
  size_t r1 = naive_rank1(in_w, in_i);
  __CPROVER_assert(BitSequenceRG__access(&rg, in_i) == (bool)bit(in_w, in_i), "C19: access(i)");
  __CPROVER_assert(BitSequenceRG__rank1(&rg, in_i) == r1, "C19: rank1(i) == number of ones in [0,i]");
  __CPROVER_assert(BitSequence__rank0((BitSequence *)&rg, in_i) == in_i + 1 - r1, "C19: rank0(i) == number of zeros in [0,i]");
  REACH_POINT();
}
/* ASSUMES: select arguments are below 2^32 (the implementation narrows its size_t argument to 32 bits) and at least 1 (select1(0) wraps its binary search, F13) */
void h_rg_select1(void) {
  RG_SETUP;
  size_t in_j; __CPROVER_assume(in_j >= 1 && in_j < ((size_t)1 << 32));
  if (in_j <= total) {
    size_t p = BitSequenceRG__select1(&rg, in_j);
    __CPROVER_assert(p < N && bit(in_w, p) && naive_rank1(in_w, p) == in_j, "C19: select1(j) is the position of the j-th one");
  } else {
    __CPROVER_assert(BitSequenceRG__select1(&rg, in_j) == (uint)-1, "C19: select1(j) beyond the number of ones");
  }
  REACH_POINT();
}
void h_rg_select0(void) {
  RG_SETUP;
  size_t in_z; __CPROVER_assume(in_z >= 1 && in_z < ((size_t)1 << 32));
  if (in_z <= N - total) {
    size_t p = BitSequenceRG__select0(&rg, in_z);
    __CPROVER_assert(p < N && !bit(in_w, p) && p + 1 - naive_rank1(in_w, p) == in_z, "C19: select0(j) is the position of the j-th zero");
  }
  REACH_POINT();
}
/* C19/C06: answers unchanged after save/load: every field and word equal, exact consumption */
void h_rg_sl(void) {
  uint in_w[NWORDS]; symbolic_bits(in_w);
  BitSequenceRG rg;
  BitSequenceRG__ctor__uint_p__size_t__uint(&rg, in_w, N, FACTOR);
  static uchar buf[512]; struct vstream out = {buf, 0, 512}, in;
  BitSequenceRG__save(&rg, &out);
  in = out; in.pos = 0;
  BitSequenceRG *l = BitSequenceRG__load(&in);
  __CPROVER_assert(in.pos == out.pos, "C06: load consumes exactly the bytes save wrote");
  __CPROVER_assert(l->n == rg.n && l->factor == rg.factor && l->s == rg.s && l->b == rg.b && l->integers == rg.integers && l->length == rg.length && l->ones == rg.ones, "C06/C19: fields equal after reload");
  size_t k; __CPROVER_assume(k < rg.integers);
  __CPROVER_assert(l->data[k] == rg.data[k], "C06: bitmap words equal after reload");
  size_t q; __CPROVER_assume(q <= rg.n / rg.s);
  __CPROVER_assert(l->Rs[q] == rg.Rs[q], "C06: rank samples equal after reload");
  size_t in_i; __CPROVER_assume(in_i < N);
  __CPROVER_assert(BitSequenceRG__rank1(l, in_i) == BitSequenceRG__rank1(&rg, in_i), "C19: rank1 unchanged after save/load");
  REACH_POINT();
}

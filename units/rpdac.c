//@ unit rpdac
//@ tu StringDictionaryRPDAC.cpp
//@ class StringDictionary
//@ class StringDictionaryRPDAC
//@ class RePair
//@ class IteratorDictString
//@ class BitSequence tu=utils/DAC_VLS.cpp
//@ class BitSequenceRG tu=utils/DAC_VLS.cpp
//@ class DAC_VLS tu=utils/DAC_VLS.cpp
//@ opaque LogSequence
//@ global W WW
//@ fn get_field tu=utils/DAC_VLS.cpp
//@ fn set_field tu=utils/DAC_VLS.cpp
//@ fn bitset tu=utils/DAC_VLS.cpp
//@ fn bits tu=utils/DAC_VLS.cpp
//@ fn DAC_VLS::ctor tu=utils/DAC_VLS.cpp sig=int_p__uint__uint__uint
//@ fn DAC_VLS::access tu=utils/DAC_VLS.cpp
//@ fn DAC_VLS::getListLength tu=utils/DAC_VLS.cpp
//@ fn StringDictionaryRPDAC::ctor sig=IteratorDictString_p
//@ fn StringDictionaryRPDAC::locateRank
//@   requires(1)
//@   ensures(RET == rank)
//@   assigns()
//@ fn StringDictionaryRPDAC::locate
//@   requires(__CPROVER_r_ok(this, sizeof(*this)) && this->elements < ((uint64_t)1 << 32) && __CPROVER_r_ok(str, 1))
//@   ensures(RET == 0 || (RET >= 1 && RET <= this->elements))
//@   assigns()
//@   loop 1: assigns(left, right, center, cmp)
//@   loop 1: invariant(1 <= left && left <= right + 1 && right <= this->elements)
//@   loop 1: decreases(right + 1 - left)
//@ ob rpdac_locateRank entry=h_rpdac_rank enforce=StringDictionaryRPDAC__locateRank tier=C props=C03 kind=statement
//@ ob rpdac_locate entry=h_rpdac_locate enforce=StringDictionaryRPDAC__locate replace=RePair__extractStringAndCompareDAC loops tier=P props=C02,C14,C01,C07 kind=statement
//@ ob rpdac_ctor entry=h_rpdac_ctor tier=B props=C01,C17,C15 kind=statement grid=rpdac defs=-DNEW_ARRAY_CAP=12 timeout=1800 mem=24 replay=rpdac
//@ structs
/* TRUSTED: the Re-Pair compressor is replaced by the identity grammar (no rules, 256 terminals, sequence unchanged): the obligation is about what the dictionary constructor does with the sequence afterwards (compaction, hand-over to the DAC). BitSequenceRG is replaced by its specification as in unit dac. */
RePair *RePair__ctor__int_p__uint__uchar(RePair *this, int *sequence, uint length, uchar maxchar);
BitSequenceRG *BitSequenceRG__ctor__uint_p__size_t__uint(BitSequenceRG *this, uint *bitarray, size_t n, uint factor);
size_t BitSequence__rank1(BitSequence *this, size_t i);
bool IteratorDictString__hasNext(IteratorDictString *it);
uchar *IteratorDictString__next(IteratorDictString *it, uint *len);
uint IteratorDictString__size(IteratorDictString *it);
void IteratorDictString__delete(IteratorDictString *it);
/* TRUSTED: frame of the grammar comparison used by RPDAC::locate: it reads the dictionary and the pattern, writes nothing */
int RePair__extractStringAndCompareDAC(RePair *this, uint id, uchar *str, uint strLen)
__CPROVER_requires(id >= 1) __CPROVER_ensures(1) __CPROVER_assigns();
//@ lowered
void h_rpdac_rank(void) { StringDictionaryRPDAC *d = malloc(sizeof(StringDictionaryRPDAC)); uint r; StringDictionaryRPDAC__locateRank(d, r); REACH_POINT(); }
void h_rpdac_locate(void) {
  StringDictionaryRPDAC *d = malloc(sizeof(StringDictionaryRPDAC)); __CPROVER_assume(d != NULL);
  uchar *pat = malloc(8); __CPROVER_assume(pat != NULL); uint in_len;
  StringDictionaryRPDAC__locate(d, pat, in_len);
  REACH_POINT();
}
#define MAXBITS 16
static uint g_bits[MAXBITS / 32 + 1];
BitSequenceRG *BitSequenceRG__ctor__uint_p__size_t__uint(BitSequenceRG *this, uint *bitarray, size_t n, uint factor) {
  __CPROVER_assert(n <= MAXBITS, "harness bound: bitmap of the DAC has at most 64 bits");
  for (size_t k = 0; k < MAXBITS / 32 + 1; k++) g_bits[k] = (k < n / 32 + 1) ? bitarray[k] : 0;
  this->data = g_bits; this->n = n; ((BitSequence *)this)->length = n; return this;
}
size_t BitSequence__rank1(BitSequence *this, size_t i) {
  BitSequenceRG *r = (BitSequenceRG *)this; size_t c = 0;
  for (size_t k = 0; k < MAXBITS; k++) if (k <= i && ((r->data[k / 32] >> (k % 32)) & 1)) c++;
  return c;
}
RePair *RePair__ctor__int_p__uint__uchar(RePair *this, int *sequence, uint length, uchar maxchar) {
  this->G = NULL; this->Cls = NULL; this->Cdac = NULL; this->maxchar = maxchar; this->terminals = 256; this->rules = 0; return this;
}
#ifndef L0
#define L0 2
#endif
#ifndef L1
#define L1 1
#endif
#ifndef L2
#define L2 0
#endif
#define NSEQ (1 + (L1 > 0) + (L2 > 0))
#define MAXL ((L0 > L1 ? (L0 > L2 ? L0 : L2) : (L1 > L2 ? L1 : L2)))
static const uint seqlen[3] = {L0, L1, L2};
struct InputIt { struct IteratorDictString base; uchar (*strs)[MAXL + 1]; };
bool IteratorDictString__hasNext(IteratorDictString *it) { return it->processed < it->scanneable; }
uchar *IteratorDictString__next(IteratorDictString *it, uint *len) { struct InputIt *m = (struct InputIt *)it; uint k = it->processed++; *len = seqlen[k]; return m->strs[k]; }
uint IteratorDictString__size(IteratorDictString *it) { return L0 + L1 + L2 + NSEQ; }   /* total bytes incl. terminators, as IteratorDictStringPlain reports */
void IteratorDictString__delete(IteratorDictString *it) { (void)it; }
/* C01/C17: every string handed to the RPDAC constructor is stored in the DAC and comes back symbol for symbol --
 * including a last string of a single symbol */
void h_rpdac_ctor(void) {
  uchar in_strs[NSEQ][MAXL + 1];
  for (int s = 0; s < NSEQ; s++) for (uint k = 0; k <= MAXL; k++) { uchar c; if (k < seqlen[s]) { __CPROVER_assume(c != 0); in_strs[s][k] = c; } else in_strs[s][k] = 0; }
  struct InputIt it = {{0, NSEQ, 0}, in_strs};
  StringDictionaryRPDAC d;
  StringDictionaryRPDAC__ctor__IteratorDictString_p(&d, (IteratorDictString *)&it);
  __CPROVER_assert(d.elements == NSEQ, "C15: elements == number of strings supplied");
  __CPROVER_assert(d.maxlength == MAXL + 1, "C15: maxlength == longest + 1");
  __CPROVER_assert(DAC_VLS__getListLength(d.rp->Cdac) == NSEQ, "C01/C17: every string (also a last one-symbol string) is stored in the DAC");
  uint in_s; __CPROVER_assume(in_s < NSEQ);
  uint *out; uint l = DAC_VLS__access(d.rp->Cdac, in_s + 1, &out);
  __CPROVER_assert(l == seqlen[in_s], "C01: stored sequence length");
  uint in_k; __CPROVER_assume(in_k < seqlen[in_s]);
  __CPROVER_assert(out[in_k] == in_strs[in_s][in_k], "C01: stored symbols == the string's bytes");
  REACH_POINT();
}

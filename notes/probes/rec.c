#include <stddef.h>
#include <stdint.h>
typedef unsigned int uint; typedef unsigned char uchar;
struct RePair { uchar maxchar; uint64_t terminals; uint64_t rules; uint32_t *G; /* simplified: 2 entries per rule */ uint32_t *explen; };
typedef struct RePair RePair;
/* recursive expansion with a contract, enforced AND replaced at the inner calls */
uint RePair__expandRule(RePair *this, uint rule, uchar *str)
__CPROVER_requires(__CPROVER_is_fresh(this, sizeof(*this)) && this->rules >= 1 && this->rules <= 1000 && this->terminals == 256)
__CPROVER_requires(__CPROVER_is_fresh(this->G, 2*this->rules*sizeof(uint32_t)) && __CPROVER_is_fresh(this->explen, this->rules*sizeof(uint32_t)))
__CPROVER_requires(rule < this->rules)
/* well-formed grammar at this rule: children are terminals or strictly smaller rules; ghost length table is consistent */
__CPROVER_requires(this->G[2*rule] < this->terminals + rule && this->G[2*rule+1] < this->terminals + rule)
__CPROVER_requires(this->explen[rule] >= 2 && this->explen[rule] <= 4096)
__CPROVER_requires(this->explen[rule] == (this->G[2*rule] >= this->terminals ? this->explen[this->G[2*rule]-this->terminals] : 1) + (this->G[2*rule+1] >= this->terminals ? this->explen[this->G[2*rule+1]-this->terminals] : 1))
__CPROVER_requires(__CPROVER_is_fresh(str, this->explen[rule]))
__CPROVER_assigns(__CPROVER_object_upto(str, this->explen[rule]))
__CPROVER_ensures(__CPROVER_return_value == this->explen[rule])
{
  uint pos = 0;
  uint left = this->G[2 * rule];
  uint right = this->G[(2 * rule) + 1];
  if (left >= this->terminals)
    pos += RePair__expandRule(this, left - this->terminals, str + pos);
  else { str[pos] = (char)left; pos++; }
  if (right >= this->terminals)
    pos += RePair__expandRule(this, right - this->terminals, str + pos);
  else { str[pos] = (char)right; pos++; }
  return pos;
}
void h_rec(void){ RePair *r; uint rule; uchar *s; RePair__expandRule(r, rule, s); }

#include <stdint.h>
#include <stddef.h>
typedef unsigned int uint;
void h(void){
  uint64_t elements; uint32_t bucketsize, buckets; size_t id;
  __CPROVER_assume(bucketsize>=2 && elements>=1 && elements <= ELMAX && bucketsize <= BSMAX);
  __CPROVER_assume(buckets == (elements + bucketsize - 1)/bucketsize);
  __CPROVER_assume(id>=1 && id<=elements);
  uint idbucket = 1 + ((id - 1) / bucketsize);
  uint pos = ((id - 1) % bucketsize);
  uint scanneable = bucketsize;
  if ((idbucket == buckets) && ((elements % bucketsize) != 0)) scanneable = (elements % bucketsize);
  __CPROVER_assert(idbucket>=1 && idbucket<=buckets,"bucket in range");
  __CPROVER_assert(pos < scanneable,"pos within bucket population");
  __CPROVER_assert(((size_t)(idbucket-1))*bucketsize + pos + 1 == id,"inverse");
}

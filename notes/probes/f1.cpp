#include "common.h"
#include <utils/LogSequence.h>
#include <utils/DAC_BVLS.h>
int main(int argc,char**argv){ int t=atoi(argv[1]);
 if(t==1){ LogSequence L(64,4); L.setField(1,0xF0F0F0F0F0F0F0F0ULL); L.setField(1,0x0F0F0F0F0F0F0F0FULL); printf("F1 get=%lx expected f0f0f0f0f0f0f0f\n", L.getField(1)); }
 if(t==3){ // F3: HASHRPDAC load then save -> tag
   std::vector<std::string> S={"abab","ababc","bcd","zz"}; size_t len; auto *it=mkit(S,&len); auto *d=new StringDictionaryHASHRPDAC(it,len,25);
   std::stringstream a; d->save(a); std::string img=a.str(); uint32_t tag; memcpy(&tag,img.data(),4); printf("F3 built image tag=%u size=%zu\n",tag,img.size());
   std::stringstream in(img); StringDictionary *e=StringDictionary::load(in,1); printf("F3 generic load -> %p\n",(void*)e);
   std::stringstream b; e->save(b); std::string img2=b.str(); memcpy(&tag,img2.data(),4); printf("F3 re-saved image tag=%u same=%d\n",tag,(int)(img==img2));
   std::stringstream in2(img2); StringDictionary *f=StringDictionary::load(in2,1); printf("F3 load of re-saved -> %p\n",(void*)f); }
 if(t==4){ // F4: HASHRPF locate leaves pattern modified
   std::vector<std::string> S; for(int i=0;i<40;i++){ char b[16]; sprintf(b,"k%02dxy",i); S.push_back(b);} size_t len; auto *it=mkit(S,&len); auto *d=new StringDictionaryHASHRPF(it,len,10);
   std::stringstream a; d->save(a); std::stringstream in(a.str()); StringDictionary *e=StringDictionary::load(in,1); if(!e){printf("load failed\n");return 1;}
   int mod=0; for(int i=0;i<200;i++){ char q[16]; sprintf(q,"q%03d",i); uchar buf[16]; strcpy((char*)buf,q); size_t L=strlen(q); unsigned long id=e->locate(buf,L); if(buf[L]!=0){ if(!mod) printf("F4 locate(%s)=%lu left terminator byte = 0x%02x\n",q,id,buf[L]); mod++; } }
   printf("F4 modified patterns: %d / 200 absent queries\n",mod);
   roundtrip(e,S,"HASHRPF loaded",false); }
}

#include <stddef.h>
#include <stdint.h>
#include <stdbool.h>
#include <stdlib.h>
typedef unsigned int uint; typedef unsigned char uchar;
#define W 32
#define mask31 0x1Fu
static const unsigned char __popcount_tab[256] = {
#define B2(n) n, n+1, n+1, n+2
#define B4(n) B2(n), B2(n+1), B2(n+1), B2(n+2)
#define B6(n) B4(n), B4(n+1), B4(n+1), B4(n+2)
 B6(0), B6(1), B6(1), B6(2) };
static inline uint popcount(const int x) { return __popcount_tab[(x >> 0) & 0xff] + __popcount_tab[(x >> 8) & 0xff] + __popcount_tab[(x >> 16) & 0xff] + __popcount_tab[(x >> 24) & 0xff]; }
static inline uint popcount8(const int x) { return __popcount_tab[x & 0xff]; }
static inline uint bits(uint n) { uint b = 0; while (n) { b++; n >>= 1; } return b; }
static inline uint uint_len(const uint e, const size_t n) { return ((unsigned long long)e * n + W - 1) / W; }
static void *cxx_new_array(size_t sz, size_t n){ void *p = malloc(sz*n); __CPROVER_assume(p!=0); return p; }
struct BitSequenceRG { size_t length; size_t ones; uint *data; size_t n; size_t integers; size_t factor, b, s; uint *Rs; };
typedef struct BitSequenceRG BitSequenceRG;
size_t BitSequenceRG__BuildRankSub(BitSequenceRG*this,size_t ini, size_t bloques) { uint rank = 0, aux; for (uint i = ini; i < ini + bloques; i++) { if (i < this->integers) { aux = this->data[i]; rank += popcount(aux); } } return rank; }
void BitSequenceRG__BuildRank(BitSequenceRG*this) { size_t num_sblock = this->n / this->s; this->Rs = cxx_new_array(sizeof(uint),num_sblock + 5); for (uint i = 0; i < num_sblock + 5; i++) this->Rs[i] = 0; size_t j; this->Rs[0] = 0; for (j = 1; j <= num_sblock; j++) { this->Rs[j] = this->Rs[j - 1]; this->Rs[j] += BitSequenceRG__BuildRankSub(this,(j - 1) * this->factor, this->factor); } }
size_t BitSequenceRG__rank1(const BitSequenceRG*this,const size_t i1) { uint i = (uint)i1; ++i; uint resp = this->Rs[i / this->s]; uint aux = (i / this->s) * this->factor; for (uint a = aux; a < i / W; a++) resp += popcount(this->data[a]); resp += popcount(this->data[i / W] & ((1 << (i & mask31)) - 1)); return resp; }
bool BitSequenceRG__access(const BitSequenceRG*this,const size_t i) { return (1u << (i % W)) & this->data[i / W]; }
BitSequenceRG *BitSequenceRG__ctor(BitSequenceRG*this,uint *bitarray, size_t _n, uint _factor) {
  if (_factor == 0) __CPROVER_assume(0);
  this->data = cxx_new_array(sizeof(uint),_n / W + 1);
  for (size_t i = 0; i < uint_len(_n, 1); i++) this->data[i] = bitarray[i];
  for (size_t i = uint_len(_n, 1); i < _n / W + 1; i++) this->data[i] = 0;
  this->n = _n; uint lgn = bits(this->n - 1); this->factor = _factor;
  if (_factor == 0) this->factor = lgn; else this->factor = _factor;
  this->b = 32; this->s = this->b * this->factor; this->integers = this->n / W + 1;
  BitSequenceRG__BuildRank(this); this->length = this->n; this->ones = BitSequenceRG__rank1(this,this->n - 1); return this; }
size_t BitSequenceRG__select1(const BitSequenceRG*this,const size_t x1) {
  uint x = x1; if (x > this->ones) return (uint)(-1);
  uint l = 0, r = this->n / this->s; uint mid = (l + r) / 2; uint rankmid = this->Rs[mid];
  while (l <= r) { if (rankmid < x) l = mid + 1; else r = mid - 1; mid = (l + r) / 2; rankmid = this->Rs[mid]; }
  uint left; left = mid * this->factor; x -= rankmid; uint j = this->data[left]; uint ones = popcount(j);
  while (ones < x) { x -= ones; left++; if (left > this->integers) return this->n; j = this->data[left]; ones = popcount(j); }
  left = left * this->b; rankmid = popcount8(j);
  if (rankmid < x) { j = j >> 8; x -= rankmid; left += 8; rankmid = popcount8(j); if (rankmid < x) { j = j >> 8; x -= rankmid; left += 8; rankmid = popcount8(j); if (rankmid < x) { j = j >> 8; x -= rankmid; left += 8; } } }
  while (x > 0) { if (j & 1) x--; j = j >> 1; left++; }
  return left - 1; }

#define bitget(e, p) ((((e)[(p) / W] >> ((p) % W))) & 1)
static inline void bitset(uint *e, size_t p) { e[p / W] |= (1 << (p % W)); }
static inline uint get_field(const uint *A, const size_t len, const size_t index) {
  if (len == W) return A[index];
  if (len == 0) return 0;
  size_t i = index * len / W, j = index * len - W * i; uint result;
  if (j + len <= W) result = (A[i] << (W - j - len)) >> (W - len);
  else { result = A[i] >> j; result = result | (A[i + 1] << (64 - j - len)) >> (W - len); }
  return result; }
static inline void set_field(uint *A, const size_t len, const size_t index, const uint x) {
  if (len == W) { A[index] = x; return; }
  if (len == 0) return;
  size_t i = index * len / W, j = index * len - i * W;
  uint mask = ((j + len) < W ? ~0u << (j + len) : 0) | ((W - j) < W ? ~0u >> (W - j) : 0);
  A[i] = (A[i] & mask) | x << j;
  if (j + len > W) { mask = ((~0u) << (len + j - W)); A[i + 1] = (A[i + 1] & mask) | x >> (W - j); } }
typedef unsigned short ushort;
struct DAC_VLS { uint tamCode; ushort base_bits; uint listLength; uint nLevels; uint *levelsIndex; uint *levels; BitSequenceRG *bS; uint *rankLevels; };
typedef struct DAC_VLS DAC_VLS;
DAC_VLS *DAC_VLS__ctor(DAC_VLS *this, int *list, uint l_Length, uint log_r, uint max_seq_length) {
  uint *levelSizeAux; uint *contB; uint bits_BS_len = 0;
  this->listLength = 0; this->nLevels = max_seq_length;
  levelSizeAux = cxx_new_array(sizeof(uint), this->nLevels);
  for (uint i = 0; i < this->nLevels; i++) levelSizeAux[i] = 0;
  for (uint i = 0; i < l_Length; i++) { for (uint j = 0; j < this->nLevels; j++) { if (list[i] >= 0) { levelSizeAux[j]++; i++; } else break; } this->listLength++; }
  this->levelsIndex = cxx_new_array(sizeof(uint), this->nLevels + 1);
  bits_BS_len = 0; this->base_bits = log_r;
  uint tamLevels = 0;
  for (uint i = 0; i < this->nLevels; i++) tamLevels += this->base_bits * levelSizeAux[i];
  this->tamCode = tamLevels;
  this->levelsIndex[0] = 0;
  contB = cxx_new_array(sizeof(uint), this->nLevels);
  for (uint j = 0; j < this->nLevels; j++) { this->levelsIndex[j + 1] = this->levelsIndex[j] + levelSizeAux[j]; contB[j] = this->levelsIndex[j]; }
  this->levels = cxx_new_array(sizeof(uint), tamLevels / W + 1);
  for (uint i = 0; i < (tamLevels / W + 1); i++) this->levels[i] = 0;
  bits_BS_len = this->levelsIndex[this->nLevels - 1] + 1;
  uint *bits_BS = cxx_new_array(sizeof(uint), bits_BS_len / W + 1);
  for (uint i = 0; i < ((bits_BS_len) / W + 1); i++) bits_BS[i] = 0;
  for (uint i = 0; i < l_Length; i++) { for (uint j = 0; j < this->nLevels; j++) { if (list[i] >= 0) { set_field(this->levels, this->base_bits, contB[j], (uint)list[i]); contB[j]++; i++; if (j > 0) bitset(bits_BS, contB[j - 1] - 1); } else break; } }
  bitset(bits_BS, bits_BS_len - 1);
  this->bS = BitSequenceRG__ctor(cxx_new_array(sizeof(BitSequenceRG),1), bits_BS, bits_BS_len, 4);
  this->rankLevels = cxx_new_array(sizeof(uint), this->nLevels);
  this->rankLevels[0] = 0;
  for (uint j = 1; j < this->nLevels; j++) this->rankLevels[j] = BitSequenceRG__rank1(this->bS, this->levelsIndex[j] - 1);
  free(contB); free(levelSizeAux); free(bits_BS);
  return this; }
uint DAC_VLS__access(const DAC_VLS *this, uint pos, uint **seq) {
  uint *sequence = cxx_new_array(sizeof(uint), this->nLevels);
  uint l_seq = 0; uint ini = pos - 1; uint j = 0; uint rankini;
  sequence[j] = get_field(this->levels, this->base_bits, ini); l_seq = 1;
  while (bitget(((BitSequenceRG *)this->bS)->data, ini)) {
    rankini = BitSequenceRG__rank1(this->bS, ini) - this->rankLevels[j]; j++;
    ini = this->levelsIndex[j] + rankini - 1;
    sequence[j] = get_field(this->levels, this->base_bits, ini);
    l_seq++;
    if (j == (uint)this->nLevels - 1) break; }
  *seq = sequence; return l_seq; }
/* shape-concrete harness: sequence lengths from -DSHAPE, symbols symbolic */
#ifndef SHAPE
#define SHAPE {2,1,3}
#endif
#ifndef NSEQ
#define NSEQ 3
#endif
#ifndef BITS
#define BITS 9
#endif
#ifndef LDELTA
#define LDELTA 0   /* caller passes total-LDELTA as l_Length */
#endif
static const uint SH[NSEQ]=SHAPE;
void h_dac(void){
  uint total=0, maxl=0; for(int i=0;i<NSEQ;i++){ total+=SH[i]+1; if(SH[i]>maxl) maxl=SH[i]; }
  int list[16]; uint p=0; int ref[NSEQ][4];
  for(int i=0;i<NSEQ;i++){ for(uint k=0;k<SH[i];k++){ int v; __CPROVER_assume(v>=0 && v < (1<<BITS)); list[p++]=v; ref[i][k]=v; } list[p++]=-(i+1); }
  DAC_VLS D; DAC_VLS__ctor(&D,list,total-LDELTA,BITS,maxl);
  __CPROVER_assert(D.listLength==NSEQ,"listLength");
  uint id; __CPROVER_assume(id>=1 && id<=NSEQ);
  uint *seq; uint l=DAC_VLS__access(&D,id,&seq);
  __CPROVER_assert(l==SH[id-1],"sequence length");
  uint k; __CPROVER_assume(k<l && k<4); __CPROVER_assert(seq[k]==(uint)ref[id-1][k],"sequence symbols");
}

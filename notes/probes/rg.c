#include <stddef.h>
#include <stdint.h>
#include <stdbool.h>
#include <stdlib.h>
typedef unsigned int uint; typedef unsigned char uchar;
#define W 32
#define mask31 0x1Fu
static const unsigned char __popcount_tab[256] = {
#define B2(n) n, n+1, n+1, n+2
#define B4(n) B2(n), B2(n+1), B2(n+1), B2(n+2)
#define B6(n) B4(n), B4(n+1), B4(n+1), B4(n+2)
 B6(0), B6(1), B6(1), B6(2) };
static inline uint popcount(const int x) { return __popcount_tab[(x >> 0) & 0xff] + __popcount_tab[(x >> 8) & 0xff] + __popcount_tab[(x >> 16) & 0xff] + __popcount_tab[(x >> 24) & 0xff]; }
static inline uint popcount8(const int x) { return __popcount_tab[x & 0xff]; }
static inline uint bits(uint n) { uint b = 0; while (n) { b++; n >>= 1; } return b; }
static inline uint uint_len(const uint e, const size_t n) { return ((unsigned long long)e * n + W - 1) / W; }
static void *cxx_new_array(size_t sz, size_t n){ void *p = malloc(sz*n); __CPROVER_assume(p!=0); return p; }
struct BitSequenceRG { size_t length; size_t ones; uint *data; size_t n; size_t integers; size_t factor, b, s; uint *Rs; };
typedef struct BitSequenceRG BitSequenceRG;
size_t BitSequenceRG__BuildRankSub(BitSequenceRG*this,size_t ini, size_t bloques) { uint rank = 0, aux; for (uint i = ini; i < ini + bloques; i++) { if (i < this->integers) { aux = this->data[i]; rank += popcount(aux); } } return rank; }
void BitSequenceRG__BuildRank(BitSequenceRG*this) { size_t num_sblock = this->n / this->s; this->Rs = cxx_new_array(sizeof(uint),num_sblock + 5); for (uint i = 0; i < num_sblock + 5; i++) this->Rs[i] = 0; size_t j; this->Rs[0] = 0; for (j = 1; j <= num_sblock; j++) { this->Rs[j] = this->Rs[j - 1]; this->Rs[j] += BitSequenceRG__BuildRankSub(this,(j - 1) * this->factor, this->factor); } }
size_t BitSequenceRG__rank1(const BitSequenceRG*this,const size_t i1) { uint i = (uint)i1; ++i; uint resp = this->Rs[i / this->s]; uint aux = (i / this->s) * this->factor; for (uint a = aux; a < i / W; a++) resp += popcount(this->data[a]); resp += popcount(this->data[i / W] & ((1 << (i & mask31)) - 1)); return resp; }
bool BitSequenceRG__access(const BitSequenceRG*this,const size_t i) { return (1u << (i % W)) & this->data[i / W]; }
BitSequenceRG *BitSequenceRG__ctor(BitSequenceRG*this,uint *bitarray, size_t _n, uint _factor) {
  if (_factor == 0) __CPROVER_assume(0);
  this->data = cxx_new_array(sizeof(uint),_n / W + 1);
  for (size_t i = 0; i < uint_len(_n, 1); i++) this->data[i] = bitarray[i];
  for (size_t i = uint_len(_n, 1); i < _n / W + 1; i++) this->data[i] = 0;
  this->n = _n; uint lgn = bits(this->n - 1); this->factor = _factor;
  if (_factor == 0) this->factor = lgn; else this->factor = _factor;
  this->b = 32; this->s = this->b * this->factor; this->integers = this->n / W + 1;
  BitSequenceRG__BuildRank(this); this->length = this->n; this->ones = BitSequenceRG__rank1(this,this->n - 1); return this; }
size_t BitSequenceRG__select1(const BitSequenceRG*this,const size_t x1) {
  uint x = x1; if (x > this->ones) return (uint)(-1);
  uint l = 0, r = this->n / this->s; uint mid = (l + r) / 2; uint rankmid = this->Rs[mid];
  while (l <= r) { if (rankmid < x) l = mid + 1; else r = mid - 1; mid = (l + r) / 2; rankmid = this->Rs[mid]; }
  uint left; left = mid * this->factor; x -= rankmid; uint j = this->data[left]; uint ones = popcount(j);
  while (ones < x) { x -= ones; left++; if (left > this->integers) return this->n; j = this->data[left]; ones = popcount(j); }
  left = left * this->b; rankmid = popcount8(j);
  if (rankmid < x) { j = j >> 8; x -= rankmid; left += 8; rankmid = popcount8(j); if (rankmid < x) { j = j >> 8; x -= rankmid; left += 8; rankmid = popcount8(j); if (rankmid < x) { j = j >> 8; x -= rankmid; left += 8; } } }
  while (x > 0) { if (j & 1) x--; j = j >> 1; left++; }
  return left - 1; }
#ifndef NB
#define NB 70
#endif
#ifndef FACTOR
#define FACTOR 1
#endif
#define NWORDS ((NB+31)/32)
void h_rg(void){
  uint bm[NWORDS]; size_t n = NB;
  for(int k=0;k<NWORDS;k++){ uint x; bm[k]=x; }
  /* bits at positions >= n are zero (as the dictionaries build them) */
  for(int p=0;p<NWORDS*32;p++) if(p>=n) bm[p/32] &= ~(1u<<(p%32));
  BitSequenceRG B; BitSequenceRG__ctor(&B,bm,n,FACTOR);
  size_t i; __CPROVER_assume(i<n);
  uint naive=0; for(int p=0;p<NB;p++) if(p<=i && ((bm[p/32]>>(p%32))&1)) naive++;
  __CPROVER_assert(BitSequenceRG__access(&B,i)==(((bm[i/32]>>(i%32))&1)!=0),"access");
  __CPROVER_assert(BitSequenceRG__rank1(&B,i)==naive,"rank1 = number of ones in [0,i]");
  if(BitSequenceRG__access(&B,i)) __CPROVER_assert(BitSequenceRG__select1(&B,naive)==i,"select1(rank1(i))=i at a one");
}

#include "common.h"
#include <algorithm>
static std::vector<std::string> gen(int n,int L,unsigned s){ std::vector<std::string> S; for(int i=0;i<n;i++){ std::string t; int l=1+(s>>8)%L; for(int k=0;k<l;k++){ s=s*1103515245+12345; t.push_back('a'+(s>>16)%26);} S.push_back(t);} std::sort(S.begin(),S.end()); S.erase(std::unique(S.begin(),S.end()),S.end()); return S; }
int main(int argc,char**argv){ int t=atoi(argv[1]); auto S=gen(200,8,777);
 if(t==2){ size_t len; auto *it=mkit(S,&len); auto *d=new StringDictionaryHASHUFFDAC(it,len,20); std::stringstream a; d->save(a); printf("F2 saved %zu bytes\n",a.str().size()); std::stringstream in(a.str()); auto *e=StringDictionary::load(in,1); roundtrip(e,S,"HASHUFFDAC loaded",false); }
 if(t==9){ auto *d=new StringDictionaryHTFC(mkit(S),4); printf("built\n"); roundtrip(d,S,"HTFC fresh",true); }
 if(t==5){ auto *d=new StringDictionaryHTFC(mkit(S),4); std::stringstream a; d->save(a); std::stringstream b; d->save(b); printf("F5 two saves equal=%d sizes %zu %zu\n",(int)(a.str()==b.str()),a.str().size(),b.str().size()); std::stringstream in(a.str()); auto *e=StringDictionary::load(in,0); roundtrip(e,S,"HTFC loaded",true); std::stringstream c; e->save(c); printf("F5 resave equal=%d\n",(int)(c.str()==a.str())); }
 if(t==6){ size_t len; auto *it=mkit(S,&len); auto *d=new StringDictionaryHASHHF(it,len,20); std::stringstream a; d->save(a); std::stringstream in(a.str()); auto *e=StringDictionary::load(in,1); roundtrip(e,S,"HASHHF loaded",false); std::stringstream c; e->save(c); uint32_t tag; memcpy(&tag,c.str().data(),4); printf("F3 HASHHF resave tag=%u equal=%d\n",tag,(int)(c.str()==a.str())); }
}

#include <stddef.h>
#include <stdint.h>
#include <stdbool.h>
typedef unsigned int uint; typedef unsigned char uchar;
struct HashDAC { size_t tsize; size_t n; void *b_ht; void *data; size_t *hashtable; };
typedef struct HashDAC HashDAC;
size_t bitwisehash(uchar *word, size_t len, size_t htsize)
__CPROVER_requires(htsize >= 1 && htsize <= 0xFFFFFFFFu)
__CPROVER_requires(len <= (1u<<20) && __CPROVER_is_fresh(word, len+1))
__CPROVER_assigns()
__CPROVER_ensures(__CPROVER_return_value < htsize)
{
  uint h = (uint)(4294967279u);
  int c;
  for (size_t i = 0; i < len; i++)
  __CPROVER_assigns(i, h, c)
  __CPROVER_loop_invariant(i <= len)
  __CPROVER_decreases(len - i)
  {
    c = word[i];
    h = (((h << 15) + h) + (uint)c) % htsize; /* h*33+c */
  }
  return (size_t)(h % htsize);
}
size_t step_value(uchar *word, size_t len, size_t htsize)
__CPROVER_requires(htsize >= 1 && htsize <= 0xFFFFFFFFu)
__CPROVER_requires(len <= (1u<<20) && __CPROVER_is_fresh(word, len+1))
__CPROVER_assigns()
__CPROVER_ensures(htsize == 1 ? __CPROVER_return_value == 0 : (__CPROVER_return_value >= 1 && __CPROVER_return_value < htsize))
{
  if (htsize == 1)
    return 0;
  uint h = (uint)(4294967197u);
  for (size_t i = 0; i < len; i++)
  __CPROVER_assigns(i, h)
  __CPROVER_loop_invariant(i <= len)
  __CPROVER_decreases(len - i)
  {
    h = ((h << 5) ^ (h >> 27)) ^ word[i];
  }
  h = h % (htsize - 1);
  if (h == 0)
    return 1;
  return (size_t)h;
}
#define EMPTY ((size_t)-1)
size_t HashDAC__insert(HashDAC *this, uchar *w, size_t len, size_t offset)
__CPROVER_requires(__CPROVER_is_fresh(this, sizeof(*this)))
__CPROVER_requires(this->tsize >= 1 && this->tsize <= (1u<<24))
__CPROVER_requires(__CPROVER_is_fresh(this->hashtable, this->tsize*sizeof(size_t)))
__CPROVER_requires(len <= (1u<<20) && __CPROVER_is_fresh(w, len+1))
__CPROVER_requires(offset != EMPTY)
__CPROVER_assigns(this->n, __CPROVER_object_whole(this->hashtable))
__CPROVER_ensures(__CPROVER_return_value == EMPTY || (__CPROVER_return_value < this->tsize && this->hashtable[__CPROVER_return_value] == offset && this->n == __CPROVER_old(this->n) + 1))
{
  size_t hval = bitwisehash(w, len, this->tsize);

  if (this->hashtable[hval] == (size_t)-1) {
    this->hashtable[hval] = offset;
    this->n++;
    return hval;
  } else {
    size_t h2 = step_value(w, len, this->tsize);
    for (size_t i = 1; i < this->tsize; i++)
    __CPROVER_assigns(i, hval)
    __CPROVER_loop_invariant(1 <= i && i <= this->tsize && hval < this->tsize)
    __CPROVER_decreases(this->tsize - i)
    {
      hval = (hval + h2) % this->tsize;
      if (this->hashtable[hval] == (size_t)-1) {
        this->hashtable[hval] = offset;
        this->n++;
        return hval;
      }
    }
    return (size_t)-1;
  }
}
void h_ins(void){ HashDAC *t; uchar *w; size_t len, off; HashDAC__insert(t,w,len,off); }
void h_bh(void){ uchar *w; size_t len, hs; bitwisehash(w,len,hs); }
void h_sv(void){ uchar *w; size_t len, hs; step_value(w,len,hs); }

#include <stddef.h>
typedef unsigned int uint; typedef unsigned char uchar;
uint ghost_k; /* arbitrary but fixed */
int longestCommonPrefix(const uchar *str1, const uchar *str2, uint length, uint *lcp)
__CPROVER_requires(length <= 100000 && __CPROVER_is_fresh(str1, length) && __CPROVER_is_fresh(str2, length) && __CPROVER_is_fresh(lcp, sizeof(uint)))
__CPROVER_requires(*lcp <= 0xFFFFFFFFu - length)
__CPROVER_assigns(*lcp)
__CPROVER_ensures(*lcp - __CPROVER_old(*lcp) <= length)
/* all positions before the reported one agree (ghost index instead of forall) */
__CPROVER_ensures(ghost_k < *lcp - __CPROVER_old(*lcp) ==> str1[ghost_k] == str2[ghost_k])
/* the reported position is a mismatch unless it is the end, and the sign is the byte difference */
__CPROVER_ensures((*lcp - __CPROVER_old(*lcp) < length) ==> (__CPROVER_return_value == (int)str1[*lcp - __CPROVER_old(*lcp)] - (int)str2[*lcp - __CPROVER_old(*lcp)] && __CPROVER_return_value != 0))
__CPROVER_ensures((*lcp - __CPROVER_old(*lcp) == length) ==> __CPROVER_return_value == 0)
{
  uint ptr = 0;
  for (; ptr < length; ptr++)
  __CPROVER_assigns(ptr)
  __CPROVER_loop_invariant(ptr <= length)
  __CPROVER_loop_invariant(ghost_k < ptr ==> str1[ghost_k] == str2[ghost_k])
  __CPROVER_decreases(length - ptr)
  {
    if (str1[ptr] != str2[ptr]) {
      *lcp += ptr;
      return (str1[ptr] - str2[ptr]);
      ;
    }
  }
  *lcp += ptr;
  return 0;
}
void h(void){ const uchar *a,*b; uint n; uint *l; longestCommonPrefix(a,b,n,l);} 

#include "common.h"
#include <algorithm>
int main(){ std::vector<std::string> S; unsigned s=12345; for(int i=0;i<60;i++){ std::string t; for(int k=0;k<3;k++){ s=s*1103515245+12345; t.push_back('a'+(s>>16)%26);} S.push_back(t);} std::sort(S.begin(),S.end()); S.erase(std::unique(S.begin(),S.end()),S.end());
   size_t len; auto *it=mkit(S,&len); auto *d=new StringDictionaryHASHRPF(it,len,10);
   std::stringstream a; d->save(a); std::stringstream in(a.str()); StringDictionary *e=StringDictionary::load(in,1); if(!e){printf("load failed\n");return 1;}
   int mod=0,tot=0; for(int i=0;i<400;i++){ std::string q; for(int k=0;k<3;k++){ s=s*1103515245+12345; q.push_back('a'+(s>>16)%26);} if(std::binary_search(S.begin(),S.end(),q)) continue; tot++; uchar buf[16]; strcpy((char*)buf,q.c_str()); size_t L=q.size(); unsigned long id=e->locate(buf,L); if(buf[L]!=0){ if(!mod) printf("F4 locate(%s)=%lu left terminator byte = 0x%02x\n",q.c_str(),id,buf[L]); mod++; } }
   printf("F4 modified patterns: %d / %d absent queries\n",mod,tot);
   roundtrip(e,S,"HASHRPF loaded",false); }

#include "common.h"
#include <functional>
// simulate PFC encoder size for bucketsize 2
static size_t cost(const std::string&prev,const std::string&cur,size_t idx){ if(idx%2==0) return cur.size()+1; size_t l=0; while(l<prev.size()&&l<cur.size()&&prev[l]==cur[l]) l++; return 1+(cur.size()-l)+1; }
int main(){ const size_t R=65536, T=R-6; std::vector<std::string> S; size_t bytes=0; 
  // filler: "a" + 7 digits
  for(int i=0;;i++){ char b[16]; sprintf(b,"a%07d",i); std::string s=b; size_t c=cost(S.empty()?"":S.back(),s,S.size()); if(bytes+c>T-200) break; S.push_back(s); bytes+=c; }
  // DFS to hit T exactly at even index
  std::vector<std::string> best; std::function<bool(std::string,size_t,size_t,std::vector<std::string>&,int)> dfs=[&](std::string prev,size_t b,size_t idx,std::vector<std::string>&acc,int depth)->bool{
    if(b==T && idx%2==0){ best=acc; return true; } if(b>=T||depth>80) return false;
    std::vector<std::string> opts; opts.push_back(prev+"a"); for(size_t k=prev.size();k>=3;k--){ std::string t=prev.substr(0,k); if(t.back()<'y'){ t.back()++; opts.push_back(t);} }
    for(auto&o:opts){ if(!(o>prev)) continue; if(b+2*o.size()>R) continue; size_t c=cost(prev,o,idx); acc.push_back(o); if(dfs(o,b+c,idx+1,acc,depth+1)) return true; acc.pop_back(); }
    return false; };
  std::vector<std::string> acc; std::string start="ay"; // first custom string
  { size_t c=cost(S.back(),start,S.size()); S.push_back(start); bytes+=c; }
  if(!dfs(start,bytes,S.size(),acc,0)){ printf("no layout found\n"); return 1; }
  for(auto&s:best) S.push_back(s); S.push_back("azz"); S.push_back("b");
  for(size_t i=1;i<S.size();i++) if(!(S[i-1]<S[i])){ printf("not sorted at %zu %s %s\n",i,S[i-1].c_str(),S[i].c_str()); return 1; }
  printf("F8 input: n=%zu strings, last three: %s %s %s\n",S.size(),S[S.size()-3].c_str(),S[S.size()-2].c_str(),S.back().c_str());
  auto *d=new StringDictionaryPFC(mkit(S),2); printf("built bytesStrings=%lu\n",(unsigned long)d->bytesStrings); roundtrip(d,S,"PFC",true); }

#include <stddef.h>
#include <stdint.h>
#include <stdbool.h>
#include <string.h>
#include <stdlib.h>
typedef unsigned int uint; typedef unsigned char uchar;
#define NORESULT 0
#define WLS 64
#ifndef MEMALLOC
#define MEMALLOC 32768
#endif
/* runtime shims */
static void *cxx_new(size_t n){ void *p = malloc(n); __CPROVER_assume(p!=0); return p; }
struct vec_size_t { size_t *d; size_t n; size_t c; };
static void vec_size_t__ctor(struct vec_size_t *v){ v->d=0; v->n=0; v->c=0; }
static void vec_size_t__push_back(struct vec_size_t *v, size_t x){ if(v->n==v->c){ size_t nc=v->c?2*v->c:4; size_t *nd=cxx_new(nc*sizeof(size_t)); for(size_t i=0;i<v->n;i++) nd[i]=v->d[i]; free(v->d); v->d=nd; v->c=nc;} v->d[v->n++]=x; }
static size_t vec_size_t__size(struct vec_size_t *v){ return v->n; }
static size_t *vec_size_t__at(struct vec_size_t *v, size_t i){ __CPROVER_assert(i<v->n,"vector index"); return &v->d[i]; }
static void vec_size_t__dtor(struct vec_size_t *v){ free(v->d); }

struct LogSequence { unsigned char numbits; size_t arraysize; size_t numentries; size_t maxval; size_t *array; };
typedef struct LogSequence LogSequence;
static inline size_t LogSequence__numElementsFor(LogSequence*this, const size_t bitsField, const size_t numEntries) { return (((uint64_t)bitsField * numEntries + WLS - 1) / WLS); }
static inline size_t LogSequence__get_field(LogSequence*this,const size_t *data, const size_t bitsField, const size_t index) {
    size_t bitPos = index * bitsField; size_t i = bitPos / WLS; size_t j = bitPos % WLS; size_t result;
    if (j + bitsField <= WLS) { result = (data[i] << (WLS - j - bitsField)) >> (WLS - bitsField); }
    else { result = data[i] >> j; result = result | (data[i + 1] << ((WLS << 1) - j - bitsField)) >> (WLS - bitsField); }
    return result; }
static inline void LogSequence__set_field(LogSequence*this,size_t *data, const size_t bitsField, const size_t index, const size_t value) {
    size_t bitPos = index * bitsField; size_t i = bitPos / WLS; size_t j = bitPos % WLS;
    size_t mask = ~(~((size_t)0) << bitsField) << j;
    data[i] = (data[i] & ~mask) | (value << j);
    if (j + bitsField > WLS) { mask = (~((size_t)0) << (bitsField + j - WLS)); data[i + 1] = (data[i + 1] & mask) | value >> (WLS - j); } }
static inline size_t LogSequence__maxVal(LogSequence*this,unsigned int numbits) { if (numbits == 32) return 0xFFFFFFFFU; else if (numbits == 64) return (size_t)0xFFFFFFFFFFFFFFFFULL; else return ~((size_t)-1 << numbits); }
static void cxx_throw(void){ __CPROVER_assert(0,"throw reached"); __CPROVER_assume(0); }
size_t LogSequence__getField(LogSequence*this,size_t position) { if (position > this->numentries) cxx_throw(); return LogSequence__get_field(this,&this->array[0], this->numbits, position); }
void LogSequence__setField(LogSequence*this,size_t position, size_t value) { if (position > this->numentries) cxx_throw(); if (value > this->maxval) cxx_throw(); LogSequence__set_field(this,this->array, this->numbits, position, value); }
LogSequence *LogSequence__ctor_vec(LogSequence*this, struct vec_size_t *v, unsigned int numbits) {
  this->numbits = numbits; this->numentries = vec_size_t__size(v); this->maxval = LogSequence__maxVal(this,numbits);
  this->arraysize = LogSequence__numElementsFor(this,numbits, this->numentries);
  this->array = cxx_new(this->arraysize*sizeof(size_t));
  for (size_t i = 0; i < this->arraysize; i++) this->array[i] = 0;
  for (size_t i = 0; i < this->numentries; i++) LogSequence__setField(this,i, *vec_size_t__at(v,i));
  return this; }
static inline uint bits(uint n) { uint b = 0; while (n) { b++; n >>= 1; } return b; }
uint VByte__encode(uint c, uchar *r) { unsigned int i = 0; while (c > 127) { r[i] = (unsigned char)(c & 127); i++; c >>= 7; } r[i] = (unsigned char)(c | 0x80); i++; return i; }
uint VByte__decode(uint *c, uchar *r) { *c = 0; int i = 0; int shift = 0; while (!(r[i] & 0x80)) { *c |= (r[i] & 127) << shift; i++; shift += 7; } *c |= (r[i] & 127) << shift; i++; return i; }
static inline size_t Reallocate(uchar **array, size_t len) { size_t llen = len * 2; uchar *xarr = cxx_new(llen); memcpy(xarr, *array, len); free(*array); for (uint i = len; i < llen; i++) xarr[i] = 0; *array = xarr; return llen; }
static inline int longestCommonPrefix(const uchar *str1, const uchar *str2, uint length, uint *lcp) { uint ptr = 0; for (; ptr < length; ptr++) { if (str1[ptr] != str2[ptr]) { *lcp += ptr; return (str1[ptr] - str2[ptr]); } } *lcp += ptr; return 0; }

/* input iterator model: array of strings */
#ifndef NS
#define NS 3
#endif
#ifndef ML
#define ML 3
#endif
struct IteratorDictString { size_t processed, scanneable; uint maxlength; uchar (*strs)[ML+1]; };
typedef struct IteratorDictString IteratorDictString;
bool IteratorDictString__hasNext(IteratorDictString*it){ return it->processed < it->scanneable; }
uchar *IteratorDictString__next(IteratorDictString*it, uint *len){ uchar *s = it->strs[it->processed++]; *len = strlen((char*)s); return s; }

struct StringDictionaryPFC { uint32_t type; uint64_t elements; uint32_t maxlength; uint32_t buckets; uint32_t bucketsize; uint64_t bytesStrings; uchar *textStrings; LogSequence *blStrings; };
typedef struct StringDictionaryPFC StringDictionaryPFC;

void StringDictionaryPFC__ctor(StringDictionaryPFC *this, IteratorDictString *it, uint bucketsize) {
  this->type = 211; this->elements = 0; this->maxlength = 0;
  if (bucketsize < 2) this->bucketsize = 2; else this->bucketsize = bucketsize;
  this->buckets = 0; this->bytesStrings = 0;
  uchar *strCurrent = NULL, *strPrev = NULL; uint lenCurrent = 0, lenPrev = 0;
  size_t reservedStrings = MEMALLOC * bucketsize;
  this->textStrings = cxx_new(reservedStrings);
  struct vec_size_t xblStrings; vec_size_t__ctor(&xblStrings);
  vec_size_t__push_back(&xblStrings, this->bytesStrings);
  while (IteratorDictString__hasNext(it)) {
    strCurrent = IteratorDictString__next(it,&lenCurrent);
    if (lenCurrent >= this->maxlength) this->maxlength = lenCurrent + 1;
    while ((this->bytesStrings + (2 * lenCurrent)) > reservedStrings) reservedStrings = Reallocate(&this->textStrings, reservedStrings);
    if ((this->elements % this->bucketsize) == 0) {
      vec_size_t__push_back(&xblStrings, this->bytesStrings); this->buckets++;
      strcpy((char *)(this->textStrings + this->bytesStrings), (char *)strCurrent);
      this->bytesStrings += lenCurrent;
    } else {
      uint lcp = 0; longestCommonPrefix(strPrev, strCurrent, lenPrev, &lcp);
      this->bytesStrings += VByte__encode(lcp, this->textStrings + this->bytesStrings);
      strncpy((char *)(this->textStrings + this->bytesStrings), (char *)strCurrent + lcp, lenCurrent - lcp);
      this->bytesStrings += lenCurrent - lcp;
    }
    this->textStrings[this->bytesStrings] = '\0'; this->bytesStrings++;
    this->elements++; strPrev = strCurrent; lenPrev = lenCurrent;
  }
  vec_size_t__push_back(&xblStrings, this->bytesStrings);
  this->blStrings = LogSequence__ctor_vec(cxx_new(sizeof(LogSequence)), &xblStrings, bits(this->bytesStrings));
  vec_size_t__dtor(&xblStrings);
}
uchar *StringDictionaryPFC__getHeader(StringDictionaryPFC*this,size_t idbucket, uchar **str, uint *strLen) {
  uchar *ptr = this->textStrings + LogSequence__getField(this->blStrings,idbucket);
  *strLen = strlen((char *)ptr);
  *str = cxx_new(this->maxlength);
  memcpy((char *)*str, (char *)ptr, *strLen + 1);
  return ptr + (*strLen) + 1; }
void StringDictionaryPFC__decodeNextString(StringDictionaryPFC*this,uchar **ptr, uint lenPrefix, uchar *str, uint *strLen) {
  uint lenSuffix; lenSuffix = strlen((char *)*ptr);
  memcpy((char *)(str + lenPrefix), (char *)*ptr, lenSuffix + 1);
  *ptr += lenSuffix + 1; *strLen = lenPrefix + lenSuffix; }
bool StringDictionaryPFC__locateBucket(StringDictionaryPFC *this, uchar *str, size_t *idbucket) {
  size_t left = 1, right = this->buckets, center = 0; int cmp = 0;
  while (left <= right) {
    center = (left + right) / 2;
    cmp = strcmp((char *)(this->textStrings + LogSequence__getField(this->blStrings, center)), (char *)str);
    if (cmp > 0) right = center - 1; else if (cmp < 0) left = center + 1; else { *idbucket = center; return true; }
  }
  if (cmp < 0) *idbucket = center; else *idbucket = center - 1;
  return false; }
unsigned long StringDictionaryPFC__locate(StringDictionaryPFC*this,uchar *str, uint _u) {
  unsigned long id = NORESULT; size_t idbucket;
  bool cmp = StringDictionaryPFC__locateBucket(this,str, &idbucket);
  if (cmp) return ((idbucket - 1) * this->bucketsize) + 1;
  else {
    if (idbucket != NORESULT) {
      uchar *decoded; uint decLen;
      uchar *ptr = StringDictionaryPFC__getHeader(this,idbucket, &decoded, &decLen);
      uint scanneable = this->bucketsize;
      if ((idbucket == this->buckets) && ((this->elements % this->bucketsize) != 0)) scanneable = (this->elements % this->bucketsize);
      if (scanneable > 1) {
        uint sharedCurr = 0, sharedPrev = 0; int cmp = 0;
        ptr += VByte__decode(&sharedPrev, ptr);
        StringDictionaryPFC__decodeNextString(this,&ptr, sharedPrev, decoded, &decLen);
        cmp = longestCommonPrefix(decoded + sharedCurr, str + sharedCurr, decLen - sharedCurr + 1, &sharedCurr);
        if (cmp != 0) {
          for (uint i = 2; i < scanneable; i++) {
            ptr += VByte__decode(&sharedPrev, ptr);
            if (sharedPrev < sharedCurr) break;
            StringDictionaryPFC__decodeNextString(this,&ptr, sharedPrev, decoded, &decLen);
            if (sharedPrev == sharedCurr) cmp = longestCommonPrefix(decoded + sharedCurr, str + sharedCurr, decLen - sharedCurr + 1, &sharedCurr);
            if (cmp == 0) { id = ((idbucket - 1) * this->bucketsize) + i + 1; free(decoded); return id; }
            else if (cmp > 0) break;
          }
        } else id = ((idbucket - 1) * this->bucketsize) + 2;
      }
      free(decoded);
    }
  }
  return id; }
uchar *StringDictionaryPFC__extract(StringDictionaryPFC*this,size_t id, uint *strLen) {
  if ((id > 0) && (id <= this->elements)) {
    uint idbucket = 1 + ((id - 1) / this->bucketsize); uint pos = ((id - 1) % this->bucketsize);
    uchar *decoded; uint decLen;
    uchar *ptr = StringDictionaryPFC__getHeader(this,idbucket, &decoded, &decLen);
    uint lenPrefix;
    if (pos > 0) for (uint i = 1; i <= pos; i++) { ptr += VByte__decode(&lenPrefix, ptr); StringDictionaryPFC__decodeNextString(this,&ptr, lenPrefix, decoded, &decLen); }
    *strLen = decLen; return decoded;
  } else { *strLen = 0; return NULL; } }


#ifndef BS
#define BS 2
#endif
static int cmpstr(const uchar*a,const uchar*b){ for(int i=0;i<=ML;i++){ if(a[i]!=b[i]) return a[i]<b[i]?-1:1; if(!a[i]) return 0; } return 0; }
void h_ctor(void){
  uchar strs[NS][ML+1]; uint len[NS];
  for(int i=0;i<NS;i++){ uint l; __CPROVER_assume(l>=1&&l<=ML); len[i]=l; for(int k=0;k<=ML;k++){ uchar c; if(k<l){ __CPROVER_assume(c>=2 && c<=0xFE); strs[i][k]=c;} else strs[i][k]=0; } }
  for(int i=1;i<NS;i++) __CPROVER_assume(cmpstr(strs[i-1],strs[i])<0);
  /* reference front-coding, bucket size BS */
  uchar text[NS*(ML+2)+1]; size_t p=0; size_t off[NS+2]; uint nb=0; off[0]=0;
  for(int i=0;i<NS;i++){ if(i%BS==0){ off[++nb]=p; for(int k=0;k<len[i];k++) text[p++]=strs[i][k]; text[p++]=0; } else { uint l=0; while(l<len[i-1] && l<len[i] && strs[i-1][l]==strs[i][l]) l++; text[p++]=(uchar)(l|0x80); for(int k=l;k<len[i];k++) text[p++]=strs[i][k]; text[p++]=0; } }
  off[nb+1]=p;
  IteratorDictString it = {0,NS,0,strs};
  StringDictionaryPFC d; StringDictionaryPFC__ctor(&d,&it,BS);
  __CPROVER_assert(d.elements==NS && d.buckets==nb && d.bucketsize==BS && d.bytesStrings==p,"counters");
  uint ml=0; for(int i=0;i<NS;i++) if(len[i]>ml) ml=len[i];
  __CPROVER_assert(d.maxlength==ml+1,"maxlength");
  size_t k; __CPROVER_assume(k<p); __CPROVER_assert(d.textStrings[k]==text[k],"text bytes");
  uint b; __CPROVER_assume(b<=nb+1); __CPROVER_assert(LogSequence__getField(d.blStrings,b)==off[b],"bucket offsets");
}

#include "common.h"
int main(int argc,char**argv){ int t=atoi(argv[1]);
  if(t==1){ std::vector<std::string> S={"ab","abc","b"}; auto *d=new StringDictionaryRPDAC(mkit(S)); roundtrip(d,S,"RPDAC{ab,abc,b}",true); }
  if(t==2){ std::vector<std::string> S={"ab","abc","bcd"}; auto *d=new StringDictionaryRPDAC(mkit(S)); roundtrip(d,S,"RPDAC{ab,abc,bcd}",true); }
  if(t==3){ std::vector<std::string> S={"ab","cd","e"}; auto *d=new StringDictionaryRPDAC(mkit(S)); roundtrip(d,S,"RPDAC{ab,cd,e}",true); }
  if(t==4){ std::vector<std::string> S={"abab","ababc","b"}; size_t len; auto *it=mkit(S,&len); auto *d=new StringDictionaryHASHRPDAC(it,len,25); roundtrip(d,S,"HASHRPDAC",false); }
  if(t==5){ std::vector<std::string> S={"ab","cd","ef"}; auto *d=new StringDictionaryRPDAC(mkit(S)); roundtrip(d,S,"RPDAC{ab,cd,ef}",true); }
}

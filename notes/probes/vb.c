#include <stddef.h>
typedef unsigned int uint; typedef unsigned char uchar;
/* spec: number of bytes */
#define VB_LEN(c) ((c) < (1u<<7) ? 1u : (c) < (1u<<14) ? 2u : (c) < (1u<<21) ? 3u : (c) < (1u<<28) ? 4u : 5u)
uint VByte_encode(uint c, uchar *r)
__CPROVER_requires(__CPROVER_is_fresh(r, 5))
__CPROVER_assigns(__CPROVER_object_upto(r, 5))
__CPROVER_ensures(__CPROVER_return_value == VB_LEN(__CPROVER_old(c)))
__CPROVER_ensures(r[__CPROVER_return_value-1] == (uchar)(((__CPROVER_old(c)) >> (7*(__CPROVER_return_value-1))) | 0x80))
__CPROVER_ensures(__CPROVER_return_value < 2 || r[0] == (__CPROVER_old(c) & 127))
__CPROVER_ensures(__CPROVER_return_value < 3 || r[1] == ((__CPROVER_old(c)>>7) & 127))
__CPROVER_ensures(__CPROVER_return_value < 4 || r[2] == ((__CPROVER_old(c)>>14) & 127))
__CPROVER_ensures(__CPROVER_return_value < 5 || r[3] == ((__CPROVER_old(c)>>21) & 127))
{
  unsigned int i = 0;
  while (c > 127)
  __CPROVER_assigns(i, c, __CPROVER_object_upto(r,5))
  __CPROVER_loop_invariant(i <= 4 && c == (__CPROVER_loop_entry(c) >> (7*i)))
  __CPROVER_loop_invariant(i < 1 || r[0] == (__CPROVER_loop_entry(c) & 127))
  __CPROVER_loop_invariant(i < 2 || r[1] == ((__CPROVER_loop_entry(c)>>7) & 127))
  __CPROVER_loop_invariant(i < 3 || r[2] == ((__CPROVER_loop_entry(c)>>14) & 127))
  __CPROVER_loop_invariant(i < 4 || r[3] == ((__CPROVER_loop_entry(c)>>21) & 127))
  __CPROVER_decreases(c)
  { r[i] = (unsigned char)(c & 127); i++; c >>= 7; }
  r[i] = (unsigned char)(c | 0x80); i++;
  return i;
}
void h_enc(void){ uint c; uchar *r; VByte_encode(c, r); }

#include <stddef.h>
#include <stdint.h>
#include <stdbool.h>
#include <stdlib.h>
typedef unsigned int uint; typedef unsigned char uchar;
#define PFC 211
#define WLS 64
/* stream shim (tier A) */
struct vstream { uchar *buf; size_t pos; size_t cap; };
static void vs_write(struct vstream *s, const char *p, size_t n){ for(size_t i=0;i<n;i++){ __CPROVER_assert(s->pos < s->cap, "stream capacity"); s->buf[s->pos++] = p[i]; } }
static void vs_read(struct vstream *s, char *p, size_t n){ for(size_t i=0;i<n;i++){ __CPROVER_assert(s->pos < s->cap, "stream underrun"); p[i] = s->buf[s->pos++]; } }
static void *cxx_new_array(size_t sz, size_t n){ void *p = malloc(sz*n); __CPROVER_assume(p!=0); return p; }
/* cppUtils.h templates, lowered per instantiation */
#define SAVEV(T,N) static void saveValue_##N(struct vstream *out, const T val){ vs_write(out,(char*)&val,sizeof(T)); }
#define LOADV(T,N) static T loadValue_##N(struct vstream *in){ T ret; vs_read(in,(char*)&ret,sizeof(T)); return ret; }
#define SAVEA(T,N) static void saveValueA_##N(struct vstream *out, const T *val, const size_t len){ vs_write(out,(char*)val,len*sizeof(T)); }
#define LOADA(T,N) static T *loadValueA_##N(struct vstream *in, const size_t len){ T *ret=(T*)cxx_new_array(sizeof(T),len); vs_read(in,(char*)ret,len*sizeof(T)); return ret; }
SAVEV(uint32_t,u32) LOADV(uint32_t,u32) SAVEV(uint64_t,u64) LOADV(uint64_t,u64) SAVEV(uchar,uchar) LOADV(uchar,uchar) SAVEV(size_t,size_t) LOADV(size_t,size_t) SAVEA(uchar,uchar) LOADA(uchar,uchar)
struct LogSequence { unsigned char numbits; size_t arraysize; size_t numentries; size_t maxval; size_t *array; };
typedef struct LogSequence LogSequence;
static inline size_t LogSequence__numElementsFor(LogSequence*this,const size_t bitsField, const size_t numEntries) { return (((uint64_t)bitsField * numEntries + WLS - 1) / WLS); }
static inline size_t LogSequence__numBytesFor(LogSequence*this,const size_t bitsField, const size_t numEntries) { return ((uint64_t)bitsField * numEntries + 7) / 8; }
static inline size_t LogSequence__maxVal(LogSequence*this,unsigned int numbits) { if (numbits == 32) return 0xFFFFFFFFU; else if (numbits == 64) return (size_t)0xFFFFFFFFFFFFFFFFULL; else return ~((size_t)-1 << numbits); }
LogSequence *LogSequence__ctor_istream(LogSequence *this, struct vstream *in) {
  this->numbits = loadValue_uchar(in);
  this->numentries = loadValue_size_t(in);
  this->maxval = LogSequence__maxVal(this,this->numbits);
  size_t numbytes = LogSequence__numBytesFor(this,this->numbits, this->numentries);
  if ((numbytes % 8) != 0) numbytes += 8 - (numbytes % 8);
  this->arraysize = LogSequence__numElementsFor(this,this->numbits, this->numentries);
  this->array = (size_t *)loadValueA_uchar(in, numbytes);
  return this; }
void LogSequence__save(LogSequence *this, struct vstream *out) {
  saveValue_uchar(out, this->numbits);
  saveValue_size_t(out, this->numentries);
  size_t numbytes = LogSequence__numBytesFor(this,this->numbits, this->numentries);
  if ((numbytes % 8) != 0) numbytes += 8 - (numbytes % 8);
  saveValueA_uchar(out, (uchar *)this->array, numbytes); }
struct StringDictionaryPFC { uint32_t type; uint64_t elements; uint32_t maxlength; uint32_t buckets; uint32_t bucketsize; uint64_t bytesStrings; uchar *textStrings; LogSequence *blStrings; };
typedef struct StringDictionaryPFC StringDictionaryPFC;
StringDictionaryPFC *StringDictionaryPFC__ctor0(StringDictionaryPFC*this){ this->type=PFC; this->elements=0; this->maxlength=0; this->buckets=0; this->bucketsize=0; this->bytesStrings=0; return this; }
void StringDictionaryPFC__save(StringDictionaryPFC*this, struct vstream *out) {
  saveValue_u32(out, this->type);
  saveValue_u64(out, this->elements);
  saveValue_u32(out, this->maxlength);
  saveValue_u32(out, this->buckets);
  saveValue_u32(out, this->bucketsize);
  saveValue_u64(out, this->bytesStrings);
  saveValueA_uchar(out, this->textStrings, this->bytesStrings);
  LogSequence__save(this->blStrings, out); }
StringDictionaryPFC *StringDictionaryPFC__load(struct vstream *in) {
  size_t type = loadValue_u32(in);
  if (type != PFC) return NULL;
  StringDictionaryPFC *dict = StringDictionaryPFC__ctor0(cxx_new_array(sizeof(StringDictionaryPFC),1));
  dict->type = PFC;
  dict->elements = loadValue_u64(in);
  dict->maxlength = loadValue_u32(in);
  dict->buckets = loadValue_u32(in);
  dict->bucketsize = loadValue_u32(in);
  dict->bytesStrings = loadValue_u64(in);
  dict->textStrings = loadValueA_uchar(in, dict->bytesStrings);
  dict->blStrings = LogSequence__ctor_istream(cxx_new_array(sizeof(LogSequence),1), in);
  return dict; }
#ifndef PAY
#define PAY 6
#endif
#define CAP (4+8+4+4+4+8+PAY+1+8+8*PAY+16)
void h_sl(void){
  StringDictionaryPFC d; LogSequence L; uchar text[PAY]; size_t words[PAY];
  d.type=PFC; d.textStrings=text; d.blStrings=&L; L.array=words;
  __CPROVER_assume(d.bytesStrings <= PAY);
  __CPROVER_assume(L.numbits>=1 && L.numbits<=64 && L.numentries <= 64*PAY && (uint64_t)L.numbits*L.numentries <= 64*PAY);
  L.arraysize = LogSequence__numElementsFor(&L,L.numbits,L.numentries); L.maxval=LogSequence__maxVal(&L,L.numbits);
  uchar buf[CAP]; struct vstream out={buf,0,CAP};
  StringDictionaryPFC__save(&d,&out);
  uint32_t tag; __CPROVER_array_copy((uchar*)&tag, buf); 
  struct vstream in={buf,0,out.pos};
  StringDictionaryPFC *e=StringDictionaryPFC__load(&in);
  __CPROVER_assert(e!=NULL,"loads");
  __CPROVER_assert(in.pos==out.pos,"self-delimiting: load consumed exactly what save wrote");
  __CPROVER_assert(e->type==PFC && e->elements==d.elements && e->maxlength==d.maxlength && e->buckets==d.buckets && e->bucketsize==d.bucketsize && e->bytesStrings==d.bytesStrings,"scalar fields");
  size_t k; __CPROVER_assume(k<d.bytesStrings); __CPROVER_assert(e->textStrings[k]==text[k],"text payload");
  __CPROVER_assert(e->blStrings->numbits==L.numbits && e->blStrings->numentries==L.numentries && e->blStrings->arraysize==L.arraysize && e->blStrings->maxval==L.maxval,"LogSequence fields");
  size_t w; __CPROVER_assume(w<L.arraysize); __CPROVER_assert(e->blStrings->array[w]==words[w],"index payload");
}

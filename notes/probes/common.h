#include <sstream>
#include <string>
#include <vector>
#include <cstring>
#include <cstdio>
#include <StringDictionary.h>
#include <iterators/IteratorDictStringPlain.h>
static IteratorDictStringPlain *mkit(const std::vector<std::string>&S, size_t *len=nullptr){
  size_t n=0; for(auto&s:S) n+=s.size()+1; uchar *b=new uchar[n+8]; size_t p=0; for(auto&s:S){ memcpy(b+p,s.c_str(),s.size()+1); p+=s.size()+1;} memset(b+p,0,8); if(len)*len=n; return new IteratorDictStringPlain(b,n); }
static int roundtrip(StringDictionary *d, const std::vector<std::string>&S, const char*tag, bool ordered){
  int bad=0; 
  for(size_t i=0;i<S.size();i++){ std::string q=S[i]; std::vector<uchar> buf(q.begin(),q.end()); buf.push_back(0);
    unsigned long id=d->locate(buf.data(),q.size()); if(id<1||id>S.size()){ printf("[%s] locate(%s)=%lu out of range\n",tag,q.c_str(),id); bad++; continue;}
    if(memcmp(buf.data(),q.c_str(),q.size()+1)){ printf("[%s] pattern modified by locate(%s)\n",tag,q.c_str()); bad++; }
    if(ordered && id!=i+1){ printf("[%s] locate(%s)=%lu expected %zu\n",tag,q.c_str(),id,i+1); bad++; }
    uint l; uchar *e=d->extract(id,&l); if(!e||std::string((char*)e)!=q||l!=q.size()){ printf("[%s] extract(%lu)=%s len %u, expected %s\n",tag,id,e?(char*)e:"NULL",l,q.c_str()); bad++; } delete[] e; }
  printf("[%s] n=%zu bad=%d\n",tag,S.size(),bad); return bad; }

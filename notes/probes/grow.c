#include <stddef.h>
#include <stdint.h>
#include <stdbool.h>
#include <stdlib.h>
typedef unsigned int uint; typedef unsigned char uchar;
#define MEMALLOC 32768
#define LMAX (1u<<20)
#define OSZ(p) __CPROVER_OBJECT_SIZE(p)
#define OFF(p) __CPROVER_POINTER_OFFSET(p)
#define VB_LEN(c) (1u + ((c) >= (1u<<7)) + ((c) >= (1u<<14)) + ((c) >= (1u<<21)) + ((c) >= (1u<<28)))
struct LogSequence; typedef struct LogSequence LogSequence;
struct vec_size_t { size_t *d; size_t n; size_t c; };
struct IteratorDictString { size_t processed, scanneable; uint maxlength; };
typedef struct IteratorDictString IteratorDictString;
struct StringDictionaryPFC { uint32_t type; uint64_t elements; uint32_t maxlength; uint32_t buckets; uint32_t bucketsize; uint64_t bytesStrings; uchar *textStrings; LogSequence *blStrings; };
typedef struct StringDictionaryPFC StringDictionaryPFC;

/* ---- tier-A contracts ---- */
bool IteratorDictString__hasNext(IteratorDictString *it) __CPROVER_requires(1) __CPROVER_ensures(1) __CPROVER_assigns();
uint ghost_len; /* length of the string last returned by next() */
uchar *IteratorDictString__next(IteratorDictString *it, uint *len)
__CPROVER_assigns(*len, ghost_len)
__CPROVER_ensures(*len >= 1 && *len <= LMAX && ghost_len == *len)
__CPROVER_ensures(__CPROVER_is_fresh(__CPROVER_return_value, *len + 1))
__CPROVER_ensures(__CPROVER_return_value[*len] == 0);
char *strcpy(char *dst, const char *src)
__CPROVER_requires(__CPROVER_r_ok(src, OSZ(src)-OFF(src)))
__CPROVER_requires(__CPROVER_w_ok(dst, OSZ(src)-OFF(src)))   /* exact-fit source: copies strlen+1 = remaining object bytes */
__CPROVER_assigns(__CPROVER_object_upto(dst, OSZ(src)-OFF(src))) __CPROVER_ensures(1);
char *strncpy(char *dst, const char *src, size_t n)
__CPROVER_requires(__CPROVER_w_ok(dst, n))
__CPROVER_assigns(__CPROVER_object_upto(dst, n)) __CPROVER_ensures(1);
uint VByte__encode(uint c, uchar *r)
__CPROVER_requires(__CPROVER_w_ok(r, VB_LEN(c)))
__CPROVER_assigns(__CPROVER_object_upto(r, VB_LEN(c)))
__CPROVER_ensures(__CPROVER_return_value == VB_LEN(c));
int longestCommonPrefix(const uchar *str1, const uchar *str2, uint length, uint *lcp)
__CPROVER_requires(*lcp == 0)
__CPROVER_assigns(*lcp)
__CPROVER_ensures(*lcp <= length && *lcp + 1 <= OSZ(str2) - OFF(str2));   /* common prefix of two C strings is shorter than either */
size_t Reallocate__uchar(uchar **array, size_t len)
__CPROVER_requires(__CPROVER_r_ok(*array, len) && OFF(*array) == 0 && len <= ((size_t)1 << 40))
__CPROVER_assigns(*array, __CPROVER_object_whole(*array))
__CPROVER_frees(*array)
__CPROVER_ensures(__CPROVER_return_value == 2 * len)
__CPROVER_ensures(__CPROVER_is_fresh(*array, 2 * len));
void vec_size_t__ctor(struct vec_size_t *v) __CPROVER_requires(1) __CPROVER_ensures(1) __CPROVER_assigns(*v);
void vec_size_t__push_back(struct vec_size_t *v, size_t x) __CPROVER_requires(1) __CPROVER_ensures(1) __CPROVER_assigns(*v);
void vec_size_t__dtor(struct vec_size_t *v) __CPROVER_requires(1) __CPROVER_ensures(1) __CPROVER_assigns(*v);
LogSequence *LogSequence__ctor_vec_new(struct vec_size_t *v, unsigned int numbits) __CPROVER_requires(1) __CPROVER_ensures(1) __CPROVER_assigns();
uint bits__uint(uint n) __CPROVER_requires(1) __CPROVER_ensures(1) __CPROVER_assigns();
void *cxx_new_array(size_t sz, size_t n)
__CPROVER_requires(sz == 1)
__CPROVER_assigns()
__CPROVER_ensures(__CPROVER_is_fresh(__CPROVER_return_value, n));

/* ---- lowered real body (StringDictionaryPFC.cpp:43-118), cerr lines dropped ---- */
StringDictionaryPFC *StringDictionaryPFC__ctor1(StringDictionaryPFC *this, IteratorDictString *it, uint bucketsize)
__CPROVER_requires(__CPROVER_is_fresh(this, sizeof(*this)) && __CPROVER_is_fresh(it, sizeof(*it)))
__CPROVER_requires(bucketsize <= (1u << 16))
__CPROVER_assigns(*this, ghost_len)
__CPROVER_ensures(this->bucketsize == (bucketsize < 2 ? 2 : bucketsize))
{
  this->type = 211;
  this->elements = 0;
  this->maxlength = 0;

  if (bucketsize < 2) {
    this->bucketsize = 2;
  } else
    this->bucketsize = bucketsize;

  this->buckets = 0;
  this->bytesStrings = 0;

  uchar *strCurrent = NULL, *strPrev = NULL;
  uint lenCurrent = 0, lenPrev = 0;

  size_t reservedStrings = MEMALLOC * bucketsize;
  this->textStrings = (uchar*)cxx_new_array(sizeof(uchar), reservedStrings);
  struct vec_size_t xblStrings; vec_size_t__ctor(&xblStrings);

  vec_size_t__push_back(&xblStrings, this->bytesStrings);

  while (IteratorDictString__hasNext(it))
  __CPROVER_assigns(strCurrent, strPrev, lenCurrent, lenPrev, reservedStrings, xblStrings, ghost_len,
                    this->elements, this->maxlength, this->buckets, this->bytesStrings, this->textStrings,
                    __CPROVER_object_whole(this->textStrings))
  __CPROVER_loop_invariant(OFF(this->textStrings) == 0 && OSZ(this->textStrings) == reservedStrings)
  __CPROVER_loop_invariant(__CPROVER_w_ok(this->textStrings, reservedStrings))
  __CPROVER_loop_invariant(this->bytesStrings <= reservedStrings && reservedStrings <= ((size_t)1 << 40))
  __CPROVER_loop_invariant(this->elements == 0 || (lenPrev >= 1 && lenPrev <= LMAX && __CPROVER_r_ok(strPrev, lenPrev + 1) && OFF(strPrev)==0 && OSZ(strPrev)==lenPrev+1))
  __CPROVER_loop_invariant(this->elements <= ((uint64_t)1 << 40))
  {
    strCurrent = IteratorDictString__next(it, &lenCurrent);
    if (lenCurrent >= this->maxlength)
      this->maxlength = lenCurrent + 1;

    while ((this->bytesStrings + (2 * lenCurrent)) > reservedStrings)
    __CPROVER_assigns(reservedStrings, this->textStrings, __CPROVER_object_whole(this->textStrings))
    __CPROVER_loop_invariant(OFF(this->textStrings) == 0 && OSZ(this->textStrings) == reservedStrings && __CPROVER_w_ok(this->textStrings, reservedStrings))
    __CPROVER_loop_invariant(this->bytesStrings <= reservedStrings && reservedStrings <= ((size_t)1 << 41))
      reservedStrings = Reallocate__uchar(&this->textStrings, reservedStrings);

    if ((this->elements % this->bucketsize) == 0) {
      vec_size_t__push_back(&xblStrings, this->bytesStrings);
      this->buckets++;
      strcpy((char *)(this->textStrings + this->bytesStrings), (char *)strCurrent);
      this->bytesStrings += lenCurrent;
    } else {
      uint lcp = 0;
      longestCommonPrefix(strPrev, strCurrent, lenPrev, &lcp);
      this->bytesStrings += VByte__encode(lcp, this->textStrings + this->bytesStrings);
      strncpy((char *)(this->textStrings + this->bytesStrings), (char *)strCurrent + lcp,
              lenCurrent - lcp);
      this->bytesStrings += lenCurrent - lcp;
    }

    this->textStrings[this->bytesStrings] = '\0';
    this->bytesStrings++;

    this->elements++;
    strPrev = strCurrent;
    lenPrev = lenCurrent;
  }

  vec_size_t__push_back(&xblStrings, this->bytesStrings);
  this->blStrings = LogSequence__ctor_vec_new(&xblStrings, bits__uint(this->bytesStrings));
  vec_size_t__dtor(&xblStrings);
  return this;
}
void h_grow(void){ StringDictionaryPFC *t; IteratorDictString *it; uint bs; StringDictionaryPFC__ctor1(t,it,bs); }

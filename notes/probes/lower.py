#!/usr/bin/env python3
"""probe: AST-directed lowering of one C++ member function to C (prototype)"""
import json, subprocess, sys, re
def ast_docs(src, filt, incs):
    cmd=['clang++','-std=c++17','-fsyntax-only','-Wno-everything']+sum([['-I',i] for i in incs],[])+['-Xclang','-ast-dump=json','-Xclang','-ast-dump-filter='+filt,src]
    out=subprocess.run(cmd,capture_output=True,text=True).stdout
    dec=json.JSONDecoder(); i=0; docs=[]
    while i<len(out):
        while i<len(out) and out[i].isspace(): i+=1
        if i>=len(out): break
        d,j=dec.raw_decode(out,i); docs.append(d); i=j
    return docs
def rng(n):
    r=n['range']; b=r['begin']; e=r['end']
    if 'expansionLoc' in b: b=b['expansionLoc']
    if 'expansionLoc' in e: e=e['expansionLoc']
    return b['offset'], e['offset']+e['tokLen']
def cname(qt):
    qt=qt.replace('const ','').replace(' *','').replace('*','').strip()
    return re.sub(r'[^A-Za-z0-9_]','_',qt)
def lower(src, qual, incs):
    text=open(src,'rb').read().decode()
    docs=[d for d in ast_docs(src,qual,incs) if d.get('kind') in('CXXMethodDecl','CXXConstructorDecl') and any(k.get('kind')=='CompoundStmt' for k in d.get('inner',[]))]
    d=docs[0]; cls=qual.split('::')[0]
    edits=[]  # (start,end,replacement)
    def walk(n):
        k=n.get('kind')
        if k=='MemberExpr' and n['inner'][0].get('kind')=='CXXThisExpr' and n['inner'][0].get('implicit') and 'bound member' not in n['type']['qualType']:
            s,e=rng(n); edits.append((s,s,'this->'))
        elif k=='CXXMemberCallExpr':
            callee=n['inner'][0]; base=callee['inner'][0]
            bt=base['type']['qualType']; 
            # peel implicit casts for text range
            bs,be=rng(base) if not (base.get('kind')=='CXXThisExpr' and base.get('implicit')) else (None,None)
            mname=callee['name']; s,e=rng(n); cs,ce=rng(callee)
            klass=cname(bt)
            if bs is None:
                edits.append((cs,ce,f'{klass}__{mname}')); recv='this'
                # insert receiver after '('
                po=text.index('(',ce); edits.append((po+1,po+1,'this'+(', ' if len(n['inner'])>1 else '')))
            else:
                recv=text[bs:be]
                arrow=callee.get('isArrow')
                # replace "base->name" by "Class__name" and add receiver as first arg
                edits.append((cs,ce,f'{klass}__{mname}'))
                po=text.index('(',ce); edits.append((po+1,po+1,('' if arrow else '&')+'@@RECV%d@@'%len(recvs)+(', ' if len(n['inner'])>1 else ''))); recvs.append((bs,be))
                for a in n['inner'][1:]: walk(a)
                # base subtree still walked for nested this->
                walk(base); return
        elif k=='CallExpr':
            cal=n['inner'][0]
            # static method call?  Class::f(...)
            ref=cal
            while ref.get('kind')=='ImplicitCastExpr': ref=ref['inner'][0]
            if ref.get('kind')=='DeclRefExpr' and ref.get('referencedDecl',{}).get('kind')=='CXXMethodDecl':
                s,e=rng(ref); t=text[s:e]
                edits.append((s,e,t.replace('::','__')))
        elif k=='CXXNewExpr':
            s,e=rng(n); 
            if n.get('isArray'):
                ety=n['type']['qualType'].rstrip('*').strip(); sz=n['inner'][0]; zs,ze=rng(sz)
                edits.append((s,zs,f'({ety}*)cxx_new_array(sizeof({ety}), ')); edits.append((ze,e,')'))
        elif k=='CXXDeleteExpr':
            s,e=rng(n); a=n['inner'][0]; as_,ae=rng(a)
            edits.append((s,as_,'cxx_delete(')); edits.append((ae,ae,')'))
        for c in n.get('inner',[]): walk(c)
    recvs=[]
    body=[k for k in d['inner'] if k['kind']=='CompoundStmt'][0]
    walk(body)
    bs,be=rng(body)
    # apply edits (non-overlapping insert/replace) right-to-left; receivers substituted afterwards from *edited* text -> do simple: compute edited text of each recv range lazily
    def apply(lo,hi):
        out=[];pos=lo
        for s,e,r in sorted([x for x in edits if lo<=x[0] and x[1]<=hi],key=lambda x:(x[0],x[1])):
            if s<pos: continue
            out.append(text[pos:s]); out.append(r); pos=e
        out.append(text[pos:hi]); return ''.join(out)
    res=apply(bs,be)
    for i,(a,b) in enumerate(recvs):
        # the receiver text is removed from its original place (it was part of callee range) so just re-render
        res=res.replace('@@RECV%d@@'%i, apply(a,b))
    params=', '.join(text[slice(*rng(p))] for p in d.get('inner',[]) if p['kind']=='ParmVarDecl')
    ret=d['type']['qualType'].split('(')[0].strip()
    return f"{ret} {cls}__{d['name']}({cls} *this{', '+params if params else ''})\n{res}\n"
if __name__=='__main__':
    print(lower(sys.argv[1], sys.argv[2], ['/repo','/repo/libcds/includes']))

#!/usr/bin/env python3
"""Driver: discharges the obligations of one property with CBMC and writes the
evidence file.  See DESIGN.md sections 3.2-3.9.

  vcheck.py <property> [--tier quick|thorough] [--only OB[,OB]] [--no-cache] [--jobs N]
  vcheck.py --unit <unit> [--only OB]        run obligations of one unit (development)
  vcheck.py --list                           list obligations per property

exit 0: every obligation explored held (known findings are printed, not alarms)
exit 1: a VIOLATION line was printed
exit 2: infrastructure error or undecided obligation (never a violation)
"""
import argparse
import concurrent.futures as cf
import glob
import hashlib
import json
import os
import re
import shutil
import subprocess
import sys
import time

HERE = os.path.dirname(os.path.dirname(os.path.abspath(__file__)))
sys.path.insert(0, os.path.join(HERE, 'tools'))
import lower as L   # noqa: E402
import unit as U    # noqa: E402

WORK = os.path.join(HERE, '.work')
RCACHE = os.path.join(HERE, '.cache', 'results')
EVID = os.path.join(HERE, 'evidence')
REPLAYD = os.path.join(EVID, 'replay')
INCLUDE = os.path.join(HERE, 'contracts', 'include')

STD_CHECKS = ['--bounds-check', '--pointer-check', '--pointer-overflow-check', '--div-by-zero-check',
              '--undefined-shift-check', '--pointer-primitive-check']
CHECKS_OFF_ASSUMPTIONS = [
    'signed-overflow-check off: the code relies on (r[i]&127)<<shift and (1<<31)-1 in int, wrap-around assumed (g++ -fwrapv-like behaviour on x86-64)',
    'unsigned-overflow-check off: modular unsigned arithmetic is defined behaviour and intended (hash functions, size computations)',
]
TRUSTED_ALWAYS = [
    'clang 14 JSON AST + lowering rules of tools/lower.py (DESIGN 3.1); mitigated by native replay of counterexamples',
    'CBMC 6.11.0 / goto-instrument dfcc / SAT back end (minisat2 built in) and cvc5/z3 where named',
    'contracts/include/prelude.h: operator new never returns NULL; delete == free; throw == assert(0)',
    'x86-64 LP64 type sizes; two\'s complement',
    'object size limit 2^(64-object_bits) of CBMC\'s memory model',
]


def sh(cmd, timeout=None, mem_kb=None, cwd=None):
    pre = ''
    if mem_kb:
        pre = 'ulimit -v %d; ' % mem_kb
    t0 = time.time()
    try:
        r = subprocess.run(['bash', '-c', pre + 'exec ' + cmd], capture_output=True, text=True, timeout=timeout, cwd=cwd)
        return r.returncode, r.stdout, r.stderr, time.time() - t0, False
    except subprocess.TimeoutExpired as e:
        return -9, (e.stdout or b'').decode('utf-8', 'replace') if isinstance(e.stdout, bytes) else (e.stdout or ''), '', time.time() - t0, True


def q(s):
    return "'" + s.replace("'", "'\\''") + "'"


# ---------------------------------------------------------------- units
_units = {}


def load_units():
    if _units:
        return _units
    for p in sorted(glob.glob(os.path.join(HERE, 'units', '*.c'))):
        u = U.Unit(p)
        _units[u.name] = u
    return _units


_built = {}


def build_unit(u):
    if u.name in _built:
        return _built[u.name]
    d = os.path.join(WORK, u.name)
    os.makedirs(d, exist_ok=True)
    try:
        txt, info = u.build()
    except (L.LowerError, U.SpecError) as e:
        _built[u.name] = (None, None, 'lowering failed: %s' % e)
        return _built[u.name]
    p = os.path.join(d, u.name + '.c')
    with open(p, 'w') as fh:
        fh.write(txt)
    _built[u.name] = (p, info, None)
    return _built[u.name]


def expand(ob, tier):
    """foreach=V:1-64[,..] quick=V:1,8 -> list of (instance name, extra defs)"""
    g = ob.opts.get('grid')
    if g:
        pts = json.load(open(os.path.join(HERE, 'contracts', 'grids.json')))[g]
        out = []
        for pt in pts:
            if tier == 'quick':
                if ob.opts.get('quickgrid'):
                    if pt['name'] not in ob.opts['quickgrid'].split('+'):
                        continue
                elif not pt.get('quick'):
                    continue
            if ob.opts.get('gridskip') and pt['name'] in ob.opts['gridskip'].split('+'):
                continue
            if ob.opts.get('gridonly') and pt['name'] not in ob.opts['gridonly'].split('+'):
                continue
            defs = ['-D%s=%s' % kv for kv in sorted(pt['defs'].items())]
            if 'unwind' in pt:
                defs.append('@unwind=%d' % pt['unwind'])
            if not pt.get('quick'):
                defs.append('@noreach')   # the reachability twin is run on the quick grid points (same harness, same assumptions)
            out.append(('%s[%s]' % (ob.name, pt['name']), defs))
        return out
    fe = ob.opts.get('foreach')
    if not fe:
        return [(ob.name, [])]
    var, spec = fe.split(':', 1)
    vals = []
    for part in spec.split(','):
        if '-' in part:
            a, b = part.split('-')
            vals += list(range(int(a), int(b) + 1))
        else:
            vals.append(int(part))
    if tier == 'quick' and 'quick' in ob.opts:
        qv, qs = ob.opts['quick'].split(':', 1)
        qvals = []
        for part in qs.split(','):
            if '-' in part:
                a, b = part.split('-')
                qvals += list(range(int(a), int(b) + 1))
            else:
                qvals.append(int(part))
        vals = [v for v in vals if v in qvals]
    return [('%s[%s=%d]' % (ob.name, var, v), ['-D%s=%d' % (var, v)]) for v in vals]


# ---------------------------------------------------------------- one obligation
def parse_cbmc_json(out):
    try:
        j = json.loads(out)
    except Exception:
        # truncated output (timeout/kill): try to salvage nothing
        return None
    res = []
    status = None
    msgs = []
    for e in j:
        if isinstance(e, dict):
            if 'result' in e:
                res = e['result']
            if 'cProverStatus' in e:
                status = e['cProverStatus']
            if e.get('messageType') in ('ERROR', 'WARNING'):
                msgs.append(e.get('messageText', ''))
    return dict(result=res, status=status, messages=msgs)


def trace_inputs(trace, entry):
    """last value of every variable assigned in the entry harness + nondet inputs"""
    vals = {}
    for st in trace or []:
        if st.get('stepType') != 'assignment' or st.get('hidden'):
            continue
        lhs = st.get('lhs')
        v = st.get('value', {})
        fn = st.get('sourceLocation', {}).get('function')
        if lhs is None:
            continue
        data = v.get('data', v.get('name'))
        if fn == entry or re.match(r'^(in|in_\w+)\b', lhs):
            vals[lhs] = data
    return vals


def run_ob(u, ob, inst, extra_defs, tier, use_cache=True, want_trace=True, reach=False):
    cpath, info, err = build_unit(u)
    base = dict(unit=u.name, ob=ob.name, instance=inst, tier=ob.tier, kind=ob.kind, props=ob.props,
                entry=ob.opts.get('entry'), enforce=ob.opts.get('enforce'), replace=ob.opts.get('replace', ''),
                reach_run=reach)
    if err:
        return dict(base, status='error', reason=err, wall_s=0.0)
    o = ob.opts
    entry = o['entry']
    grid_unwind = [d for d in extra_defs if d.startswith('@unwind=')]
    extra_defs = [d for d in extra_defs if not d.startswith('@')]
    defs = [d for d in o.get('defs', '').split(',') if d] + extra_defs + (['-DREACH'] if reach else [])
    if tier == 'thorough' and o.get('tdefs'):
        defs += [d for d in o['tdefs'].split(',') if d]
    timeout = int(o.get('timeout', 300))
    if tier == 'thorough':
        timeout = int(o.get('ttimeout', timeout * 3))
    mem_kb = int(o.get('mem', 10)) * 1000 * 1000
    checks = list(STD_CHECKS)
    for c in o.get('nochecks', '').split(','):
        if c and ('--' + c) in checks:
            checks.remove('--' + c)
    for c in o.get('checks', '').split(','):
        if c:
            checks.append('--' + c)
    cb = ['--no-standard-checks'] + checks
    cb += ['--object-bits', o.get('objbits', '12')]
    unwind = o.get('unwind')
    if tier == 'thorough' and o.get('tunwind'):
        unwind = o['tunwind']
    if grid_unwind:
        unwind = str(int(grid_unwind[0].split('=')[1]) + int(o.get('unwind_extra', 0)))
    if unwind:
        cb += ['--unwind', unwind, '--unwinding-assertions']
    if o.get('unwindset'):
        cb += ['--unwindset', o['unwindset'], '--unwinding-assertions']
    solver = o.get('solver', 'sat')
    if solver in ('cvc5', 'z3'):
        cb += ['--' + solver]
    elif solver == 'kissat':
        cb += ['--external-sat-solver', 'kissat']
    if o.get('slice', 'yes') != 'no':
        cb += ['--slice-formula']
    key_src = json.dumps([L.repo_hash(), open(cpath).read(), sorted(o.items()), ob.flags, inst, defs, cb, reach,
                          timeout, _tool_versions(), _include_hash()], sort_keys=True)
    key = hashlib.sha1(key_src.encode()).hexdigest()
    cfile = os.path.join(RCACHE, key + '.json')
    if use_cache and os.path.exists(cfile):
        r = json.load(open(cfile))
        r['cached'] = True
        return r
    d = os.path.join(WORK, u.name, re.sub(r'[^A-Za-z0-9_=-]', '_', inst) + ('.reach' if reach else ''))
    shutil.rmtree(d, ignore_errors=True)
    os.makedirs(d)
    t0 = time.time()
    a = os.path.join(d, 'a.gb')
    b = os.path.join(d, 'b.gb')
    cmd1 = 'goto-cc -Wall --function %s -I %s %s %s -o %s' % (entry, q(INCLUDE), ' '.join(q(x) for x in defs), q(cpath), q(a))
    rc, so, se, dt, to = sh(cmd1, timeout=120)
    cmds = [cmd1]
    if rc != 0:
        return dict(base, status='error', reason='goto-cc failed: ' + (se or so)[-1500:], wall_s=time.time() - t0, cmds=cmds)
    if 'is not declared' in (se + so):
        m = re.search(r"function '(\w+)' is not declared", se + so)
        return dict(base, status='error', reason='implicit declaration of %s in the lowered unit (missing prototype / callee not lowered)' % (m.group(1) if m else '?'),
                    wall_s=time.time() - t0, cmds=cmds)
    dfcc = o.get('enforce') or o.get('replace') or ('loops' in ob.flags) or ('autoreplace' in ob.flags)
    if dfcc:
        gi = ['goto-instrument', '--dfcc', entry]
        if o.get('enforce'):
            gi += ['--enforce-contract', o['enforce']]
        repl = [x for x in o.get('replace', '').split(',') if x]
        if 'autoreplace' in ob.flags and (o.get('enforce') or o.get('stubroot')):
            stubs = set(info.get('autostubs', []))
            contracted = {f_['name'] for f_ in info.get('functions', []) if f_.get('contract')}
            explicit = list(repl)
            repl = [x for x in explicit if x.startswith('vstream__') or x in ('pow',)]   # shim / libm functions are always linked in
            root = o.get('stubroot') or o['enforce']
            seen, todo = set(), [root]
            while todo:
                f_ = todo.pop()
                if f_ in seen:
                    continue
                seen.add(f_)
                for c_ in info.get('calls_by_fn', {}).get(f_, []):
                    if c_ in stubs or c_ in explicit or (c_ in contracted and c_ != root):
                        if c_ not in repl:
                            repl.append(c_)
                    else:
                        todo.append(c_)
        for r_ in repl:
            gi += ['--replace-call-with-contract', r_]
        if 'loops' in ob.flags:
            gi += ['--apply-loop-contracts']
        if 'rec' in ob.flags:
            gi[gi.index('--enforce-contract')] = '--enforce-contract-rec'
        gi += [a, b]
        cmd2 = ' '.join(q(x) for x in gi)
        cmds.append(cmd2)
        rc, so, se, dt, to = sh(cmd2, timeout=300, mem_kb=mem_kb)
        if rc != 0:
            return dict(base, status='error', reason='goto-instrument failed: ' + (se or so)[-1500:], wall_s=time.time() - t0, cmds=cmds)
    else:
        b = a
    cmd3 = 'cbmc %s %s --json-ui' % (q(b), ' '.join(q(x) for x in cb))
    cmds.append(cmd3)
    rc, so, se, dt, to = sh(cmd3, timeout=timeout, mem_kb=mem_kb)
    res = dict(base, cmds=cmds, solver=solver, cbmc_s=round(dt, 2), defs=defs, unwind=unwind, cached=False)
    if to:
        res.update(status='undecided', reason='cbmc timeout after %ds' % timeout)
    else:
        pj = parse_cbmc_json(so)
        if pj is None or pj['status'] is None:
            oom = 'bad_alloc' in (so + se) or 'Out of memory' in (so + se) or rc in (134, 137, -9)
            res.update(status='undecided' if oom else 'error',
                       reason=('cbmc out of memory / killed' if oom else 'cbmc produced no result') + ': ' + (se or so)[-800:])
        else:
            props = pj['result']
            fails = [p for p in props if p.get('status') == 'FAILURE']
            unknown = [p for p in props if p.get('status') not in ('SUCCESS', 'FAILURE')]
            ign = [m for m in pj['messages'] if 'ignoring' in m]
            res['n_props'] = len(props)
            res['n_success'] = len([p for p in props if p.get('status') == 'SUCCESS'])
            res['prop_classes'] = _classes(props)
            res['failures'] = [dict(property=p['property'], description=p.get('description'), status=p.get('status'),
                                    location=_loc(p.get('sourceLocation'))) for p in fails]
            res['sample_props'] = [dict(property=p['property'], description=p.get('description'), status=p['status'])
                                   for p in _own(props, o)[:4]]
            if ign:
                res.update(status='undecided', reason='solver ignored a quantifier: ' + ign[0])
            elif unknown and not [p for p in fails if '.unwind.' not in p['property']]:
                res.update(status='undecided', reason='solver returned %s for %d properties (solver error / out of memory)' % (unknown[0].get('status'), len(unknown)))
            elif not props:
                res.update(status='error', reason='zero obligations generated (vacuous)')
            elif not fails:
                res['status'] = 'pass'
                # vacuity guards
                names = ' '.join(p['property'] for p in props)
                if o.get('enforce') and (o['enforce'] + '.postcondition') not in names:
                    res.update(status='error', reason='no postcondition obligation for the enforced function (vacuous)')
                if 'loops' in ob.flags and 'loop_invariant_step' not in names:
                    res.update(status='error', reason='loop contracts requested but no loop_invariant_step obligation was generated')
            else:
                only_unwind = all('.unwind.' in p['property'] or 'unwinding assertion' in (p.get('description') or '') for p in fails)
                if only_unwind:
                    res.update(status='undecided', reason='unwinding assertion failed (bound too small): ' + fails[0]['property'])
                else:
                    res['status'] = 'fail'
                    if want_trace and not reach:
                        # rerun for the counterexample of the first failing semantic property
                        rc2, so2, se2, dt2, to2 = sh(cmd3 + ' --trace --stop-on-fail', timeout=timeout, mem_kb=mem_kb)
                        try:
                            j2 = json.loads(so2) if not to2 else []
                        except Exception:
                            j2 = []
                        for e in j2:
                            if not isinstance(e, dict):
                                continue
                            cands = [e] if e.get('trace') else [p for p in e.get('result', []) if p.get('trace')]
                            for p in cands:
                                res['cex'] = dict(property=p['property'], description=p.get('description'),
                                                  inputs=trace_inputs(p['trace'], entry))
                                break
                            if 'cex' in res:
                                break
    res['wall_s'] = round(time.time() - t0, 2)
    if res.get('status') in ('pass', 'fail'):
        os.makedirs(RCACHE, exist_ok=True)
        with open(cfile + '.tmp%d' % os.getpid(), 'w') as fh:
            json.dump(res, fh)
        os.replace(cfile + '.tmp%d' % os.getpid(), cfile)
    if (res.get('status') == 'pass' or reach) and os.environ.get('VERIF_KEEP') != '1':
        shutil.rmtree(d, ignore_errors=True)
    return res


def _loc(sl):
    if not sl:
        return None
    return '%s:%s (%s)' % (sl.get('file'), sl.get('line'), sl.get('function'))


def _classes(props):
    c = {}
    for p in props:
        parts = p['property'].split('.')
        k = parts[-2] if len(parts) >= 2 else parts[0]
        c[k] = c.get(k, 0) + 1
    return c


def _own(props, o):
    names = [o.get('enforce') or '', o.get('entry') or '']
    own = [p for p in props if any(n and p['property'].startswith(n + '.') for n in names)]
    own.sort(key=lambda p: (0 if ('postcondition' in p['property'] or 'assertion' in p['property']) else 1))
    return own


_tv = None


def _tool_versions():
    global _tv
    if _tv is None:
        _tv = subprocess.run(['cbmc', '--version'], capture_output=True, text=True).stdout.strip()
    return _tv


_ih = None


def _include_hash():
    global _ih
    if _ih is None:
        h = hashlib.sha1()
        for p in sorted(glob.glob(os.path.join(INCLUDE, '*'))) + sorted(glob.glob(os.path.join(HERE, 'tools', '*.py'))) + \
                [os.path.join(HERE, 'contracts', 'grids.json')]:
            h.update(open(p, 'rb').read())
        _ih = h.hexdigest()
    return _ih


# ---------------------------------------------------------------- known findings
def load_known():
    p = os.path.join(HERE, 'known_findings.json')
    if not os.path.exists(p):
        return dict(findings=[], fixed=[])
    return json.load(open(p))


# ---------------------------------------------------------------- native replay
def native_replay(res, prop):
    """returns (verdict, detail): verdict in reproduced|not-reproduced|none"""
    u = load_units()[res['unit']]
    ob = [o for o in u.obs if o.name == res['ob']][0]
    drv = ob.opts.get('replay')
    if not drv or 'cex' not in res:
        return 'none', 'no native replay driver for this obligation' if not drv else 'verifier gave no counterexample trace'
    sys.path.insert(0, os.path.join(HERE, 'replay'))
    try:
        import replay_native
        return replay_native.run(drv, res, prop)
    except Exception as e:  # replay infrastructure must never turn into an alarm by itself
        return 'none', 'replay driver error: %r' % (e,)


# ---------------------------------------------------------------- property run
def select(prop, tier, only=None, unit=None):
    jobs = []
    for u in load_units().values():
        if unit and u.name != unit:
            continue
        for ob in u.obs:
            if prop and prop not in ob.props:
                continue
            if only and ob.name not in only:
                continue
            if ob.opts.get('only') == 'thorough' and tier != 'thorough':
                continue
            for inst, defs in expand(ob, tier):
                jobs.append((u, ob, inst, defs))
    return jobs


def run_property(prop, tier, only=None, unit=None, use_cache=True, jobs_n=None):
    t0 = time.time()
    seed = int(os.environ.get('VERIF_SEED', '0') or 0)
    jobs = select(prop, tier, only, unit)
    if not jobs:
        print('no obligations selected for %s' % (prop or unit))
        return 2
    # build units first (sequential; clang runs are cached)
    for u in {j[0].name: j[0] for j in jobs}.values():
        build_unit(u)
    known = load_known()
    kf = [k for k in known.get('findings', []) if (not prop or k['property'] == prop)]
    results = []
    n = jobs_n or int(os.environ.get('VERIF_JOBS', '0') or 0) or min(16, os.cpu_count() or 4)
    with cf.ThreadPoolExecutor(max_workers=n) as ex:
        futs = []
        for (u, ob, inst, defs) in jobs:
            futs.append(ex.submit(run_ob, u, ob, inst, defs, tier, use_cache, True, False))
            if ob.opts.get('reach', 'yes') != 'no' and '@noreach' not in defs:
                futs.append(ex.submit(run_ob, u, ob, inst, defs, tier, use_cache, False, True))
            for k in kf:
                if k['unit'] == u.name and k['ob'] == ob.name and k.get('exclude_def'):
                    futs.append(ex.submit(run_ob, u, ob, inst + '{excl}', defs + [k['exclude_def']], tier, use_cache, True, False))
        for f in futs:
            results.append(f.result())
    return report(prop or ('unit:' + unit), tier, seed, results, kf, known, time.time() - t0)


def report(prop, tier, seed, results, kf, known, wall):
    main = [r for r in results if not r.get('reach_run') and not r['instance'].endswith('{excl}')]
    reach = {(r['unit'], r['instance']): r for r in results if r.get('reach_run')}
    excl = {(r['unit'], r['instance'][:-6]): r for r in results if r['instance'].endswith('{excl}')}
    violations = []
    undecided = []
    known_lines = []
    lines = []
    for r in main:
        key = (r['unit'], r['instance'])
        st = r['status']
        tag = '%s/%s' % key
        # vacuity: the reach twin must FAIL exactly on the "reach" assertion
        rr = reach.get(key)
        if st == 'pass' and rr is not None:
            if rr['status'] == 'fail' and any((f.get('description') or '') == 'reach' for f in rr.get('failures', [])):
                r['reach'] = 'reachable'
            elif rr['status'] == 'pass':
                st = r['status'] = 'error'
                r['reason'] = 'vacuous: the end of the harness is unreachable (contradictory preconditions or harness)'
            elif rr['status'] in ('undecided', 'error'):
                r['reach'] = 'reach twin ' + rr['status'] + ': ' + rr.get('reason', '')
                st = r['status'] = 'undecided'
                r['reason'] = 'reachability twin did not finish: ' + rr.get('reason', '')
            else:
                r['reach'] = 'reach twin failed elsewhere: ' + json.dumps(rr.get('failures', [])[:2])
                st = r['status'] = 'error'
                r['reason'] = r['reach']
        k_here = [k for k in kf if k['unit'] == r['unit'] and k['ob'] == r['ob'] and
                  (not k.get('instance') or k['instance'] == r['instance'])]
        if st == 'fail':
            if k_here:
                k = k_here[0]
                ex = excl.get(key)
                if k.get('exclude_def') and (ex is None or ex['status'] != 'pass'):
                    # a failure outside the recorded region: a new violation
                    bad = ex if ex is not None else r
                    violations.append((r, bad, 'failure outside the known-finding region'))
                else:
                    known_lines.append('KNOWN-FINDING: property=%s %s' % (k['property'], k['what']))
                    r['known_finding'] = k['what']
            else:
                violations.append((r, r, None))
        elif st in ('undecided', 'error'):
            undecided.append(r)
        lines.append('%-9s %-38s tier=%s %5.1fs  %s' % (st.upper(), tag, r['tier'], r.get('wall_s', 0),
                                                       ('props=%d' % r.get('n_props', 0)) if st == 'pass' else (r.get('reason') or '; '.join(f['property'] for f in r.get('failures', [])[:3]))[:160]))
    for ln in lines:
        print(ln)
    for ln in sorted(set(known_lines)):
        print(ln)
    # ---- violations
    os.makedirs(REPLAYD, exist_ok=True)
    vio_n = 0
    soft_undecided = []
    pid = prop if not prop.startswith('unit:') else 'UNIT'
    for (r, bad, why) in violations:
        verdict, detail = native_replay(bad, pid)
        rp = os.path.join(REPLAYD, '%s-%s-%s.json' % (pid, r['unit'], re.sub(r'[^A-Za-z0-9_=-]', '_', r['instance'])))
        doc = dict(property=pid, obligation='%s/%s' % (r['unit'], r['instance']), kind=r['kind'], tier=r['tier'],
                   failed=bad.get('failures', []), counterexample=bad.get('cex'), native_replay=dict(verdict=verdict, detail=detail),
                   cmds=bad.get('cmds'), note=why)
        if r['kind'] == 'representation' and verdict == 'not-reproduced':
            # the specification encodes how the code achieves the property; the property itself holds on the counterexample
            r['status'] = 'undecided'
            r['reason'] = 'representation-level obligation failed, property holds natively on the counterexample'
            soft_undecided.append(r)
            print('UNDECIDED obligation=%s/%s (representation-level obligation failed, property holds on the counterexample)' % (r['unit'], r['instance']))
            continue
        with open(rp, 'w') as fh:
            json.dump(doc, fh, indent=1)
        vio_n += 1
        suffix = '' if verdict == 'reproduced' else ' no-failing-input-found'
        print('VIOLATION property=%s replay=%s%s' % (pid, rp, suffix))
        for f in bad.get('failures', [])[:5]:
            print('   failed obligation %s: %s @ %s' % (f['property'], f['description'], f['location']))
    undecided += soft_undecided
    for r in undecided:
        print('UNDECIDED/ERROR %s/%s: %s' % (r['unit'], r['instance'], (r.get('reason') or '')[:600]))
    if not prop.startswith('unit:'):
        write_evidence(prop, tier, seed, main, reach, kf, known, wall, vio_n, undecided)
    if vio_n:
        return 1
    if undecided:
        return 2
    return 0


def write_evidence(prop, tier, seed, main, reach, kf, known, wall, vio_n, undecided):
    pc = [r for r in main if r['tier'] in ('P', 'C')]
    bd = [r for r in main if r['tier'] == 'B']
    obligations = sum(r.get('n_props', 0) for r in pc)
    discharged = sum(r.get('n_success', 0) for r in pc if r['status'] == 'pass') + \
        sum(r.get('n_success', 0) for r in pc if r['status'] != 'pass')
    fns = {}
    dropped = []
    for un in sorted({r['unit'] for r in main}):
        _, info, _ = build_unit(load_units()[un])
        if info:
            for f in info['functions']:
                fns['%s (%s:%d)' % (f['qual'], f['file'], f['line'])] = dict(
                    contract=f['contract'], loop_contracts=f['loop_contracts'], loops=f['loops'],
                    lowering_edits=f['edits'], cut=f['cut'])
            dropped += info['dropped']
    trusted = list(TRUSTED_ALWAYS)
    for un in sorted({r['unit'] for r in main}):
        u = load_units()[un]
        for ln in u.pre0 + u.pre + u.post:
            m = re.match(r'\s*/\*\s*TRUSTED:\s*(.*?)\s*\*/', ln)
            if m:
                trusted.append('%s: %s' % (un, m.group(1)))
    assumptions = list(CHECKS_OFF_ASSUMPTIONS)
    for un in sorted({r['unit'] for r in main}):
        u = load_units()[un]
        for ln in u.pre0 + u.pre + u.post:
            m = re.match(r'\s*/\*\s*(ASSUMES|UNDECIDED):\s*(.*?)\s*\*/', ln)
            if m:
                assumptions.append('%s [%s]: %s' % (m.group(1).lower(), un, m.group(2)))
    samples = []
    for r in pc[:3] + bd[:2]:
        samples.append(dict(obligation='%s/%s' % (r['unit'], r['instance']), tier=r['tier'], entry=r.get('entry'),
                            enforce=r.get('enforce'), replace=r.get('replace'), status=r['status'],
                            cbmc_properties=r.get('sample_props', []), cmds=r.get('cmds', [])[-2:]))
    ev = dict(
        property_id=prop, tier=tier, seed=seed, level='proof',
        coverage=dict(
            obligations=obligations, discharged=discharged,
            checker_cmd='goto-cc --function <entry> unit.c; goto-instrument --dfcc <entry> --enforce-contract <f> [--replace-call-with-contract g].. [--apply-loop-contracts]; cbmc --no-standard-checks ' + ' '.join(STD_CHECKS) + ' --object-bits 12 [--unwind N --unwinding-assertions] --slice-formula --json-ui',
            trusted_base=trusted,
            proved=[dict(obligation='%s/%s' % (r['unit'], r['instance']), tier=r['tier'], kind=r['kind'], status=r['status'],
                         enforce=r.get('enforce'), replaced=r.get('replace'), cbmc_properties=r.get('n_props', 0),
                         discharged=r.get('n_success', 0), classes=r.get('prop_classes'), backend=r.get('solver'),
                         unwind=r.get('unwind'), solver_s=r.get('cbmc_s'), cached=r.get('cached', False),
                         reachability=r.get('reach'), known_finding=r.get('known_finding')) for r in pc],
            bounded=[dict(obligation='%s/%s' % (r['unit'], r['instance']), label='bounded', status=r['status'],
                          bound=dict(defs=r.get('defs'), unwind=r.get('unwind')), checks=r.get('n_props', 0),
                          passed=r.get('n_success', 0), backend=r.get('solver'), solver_s=r.get('cbmc_s'),
                          cached=r.get('cached', False), reachability=r.get('reach'),
                          known_finding=r.get('known_finding')) for r in bd],
            functions_under_contract=fns,
            lowering_dropped=sorted(set(dropped)),
            solver_seconds=round(sum(r.get('cbmc_s', 0) or 0 for r in main), 1),
            samples=samples,
            known_findings=[k for k in kf],
            fixed=[k for k in known.get('fixed', []) if k.get('property') == prop],
            undecided=['%s/%s: %s' % (r['unit'], r['instance'], r.get('reason')) for r in undecided],
            exhaustive=False,
        ),
        assumptions=assumptions,
        wall_s=round(wall, 1), violations=vio_n)
    if obligations == 0:
        # no proof-tier obligation selected (e.g. --only): fall back to the generic counters, never claim zero proofs as proof
        for k in ('obligations', 'discharged'):
            ev['coverage'].pop(k)
        ev['coverage']['evaluations'] = len(main)
        ev['coverage']['distinct_nontrivial'] = len({(r['unit'], r['instance']) for r in main if r.get('n_props', 0) > 0})
        ev['coverage']['rule'] = 'one evaluation = one bounded CBMC harness instance; non-trivial = it generated at least one checked property'
    os.makedirs(EVID, exist_ok=True)
    with open(os.path.join(EVID, prop + '.json'), 'w') as fh:
        json.dump(ev, fh, indent=1)


def main():
    ap = argparse.ArgumentParser()
    ap.add_argument('prop', nargs='?')
    ap.add_argument('--tier', default=os.environ.get('VERIF_TIER', 'quick'))
    ap.add_argument('--only')
    ap.add_argument('--unit')
    ap.add_argument('--no-cache', action='store_true')
    ap.add_argument('--jobs', type=int)
    ap.add_argument('--list', action='store_true')
    a = ap.parse_args()
    if a.list:
        for u in load_units().values():
            for ob in u.obs:
                print('%-14s %-28s tier=%s kind=%s props=%s' % (u.name, ob.name, ob.tier, ob.kind, ','.join(ob.props)))
        return 0
    only = a.only.split(',') if a.only else None
    use_cache = not a.no_cache and os.environ.get('VERIF_NOCACHE') != '1'
    return run_property(a.prop, a.tier, only, a.unit, use_cache, a.jobs)


if __name__ == '__main__':
    sys.exit(main())

#!/bin/bash
# usage: run_seeded_wt.sh <seeded dir> <tier> <prop> [prop...]
# Same as run_seeded.sh but leaves /repo and /verif untouched: the seeded change is applied in a scratch worktree of
# /repo, the checks run from a scratch copy of /verif with VERIF_REPO pointing at that worktree; both are removed.
D=$(realpath $1); TIER=$2; shift 2
ID=$(basename $D); WT=/tmp/seedwt_$ID; V=/tmp/seedverif_$ID
rm -rf $WT $V; git -C /repo worktree prune
git -C /repo worktree add -q --detach $WT HEAD || exit 2
git -C $WT apply $D/patch.diff || { echo "patch does not apply"; git -C /repo worktree remove --force $WT; exit 2; }
mkdir -p $V; rsync -a --exclude .work --exclude .cache --exclude .git --exclude seeded /verif/ $V/
for P in "$@"; do
  (cd $V && VERIF_REPO=$WT ./vcheck $P --tier $TIER) > $D/run_$P.log 2>&1; rc=$?
  echo "$ID $P exit=$rc $(grep -c '^VIOLATION' $D/run_$P.log) violation line(s): $(grep '^FAIL' $D/run_$P.log | awk '{print $2}' | head -4 | tr '\n' ' ')"
done
git -C /repo worktree remove --force $WT; rm -rf $V

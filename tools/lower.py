#!/usr/bin/env python3
"""AST-directed lowering of libCSD C++ member/free functions to C for CBMC.

The verified text is the *real* function body from /repo's working tree: the
body's source range is copied and a fixed set of edits is applied at byte
offsets taken from clang's JSON AST (DESIGN.md section 3.1).  Anything outside
the supported subset raises LowerError (reported by the driver as an
infrastructure error, exit 2 -- never as a violation).
"""
import hashlib
import json
import os
import re
import subprocess
import sys

REPO = os.environ.get('VERIF_REPO', '/repo')
CACHE = os.environ.get('VERIF_CACHE', os.path.join(os.path.dirname(os.path.dirname(os.path.abspath(__file__))), '.cache'))
INCS = ['-I', REPO, '-I', REPO + '/libcds/includes']
NAMESPACES = ('cds_utils', 'cds_static', 'std')


class LowerError(Exception):
    pass


class _SkipNode(Exception):
    pass


# ---------------------------------------------------------------- repo hash
_repo_hash = None


def repo_hash():
    """content hash of every source file in the working tree (cache key)"""
    global _repo_hash
    if _repo_hash is None:
        h = hashlib.sha1()
        for root, dirs, files in os.walk(REPO):
            dirs[:] = sorted(d for d in dirs if d not in ('.git', '_build', 'build'))
            for f in sorted(files):
                if f.endswith(('.h', '.hpp', '.cpp', '.c', '.cc')):
                    p = os.path.join(root, f)
                    h.update(p.encode())
                    with open(p, 'rb') as fh:
                        h.update(fh.read())
        _repo_hash = h.hexdigest()
    return _repo_hash


def _cached(key, producer):
    os.makedirs(CACHE, exist_ok=True)
    fn = os.path.join(CACHE, hashlib.sha1((repo_hash() + '|' + key).encode()).hexdigest())
    if os.path.exists(fn):
        with open(fn, 'r') as fh:
            return fh.read()
    out = producer()
    tmp = fn + '.%d' % os.getpid()
    with open(tmp, 'w') as fh:
        fh.write(out)
    os.replace(tmp, fn)
    return out


# ---------------------------------------------------------------- clang
_ast_mem = {}


def clang_ast(tu, filt):
    """list of top-level JSON docs clang dumps for decls matching filt"""
    key = (tu, filt)
    if key in _ast_mem:
        return _ast_mem[key]
    path = tu if os.path.isabs(tu) else os.path.join(REPO, tu)

    def run():
        cmd = ['clang++', '-std=c++17', '-fsyntax-only', '-Wno-everything'] + INCS + \
              ['-Xclang', '-ast-dump=json', '-Xclang', '-ast-dump-filter=' + filt, path]
        r = subprocess.run(cmd, capture_output=True, text=True)
        if r.returncode != 0:
            raise LowerError('clang failed on %s: %s' % (tu, r.stderr[-2000:]))
        return r.stdout
    out = _cached('ast|%s|%s' % (tu, filt), run)
    dec = json.JSONDecoder()
    i = 0
    docs = []
    n = len(out)
    while i < n:
        while i < n and out[i].isspace():
            i += 1
        if i >= n:
            break
        d, j = dec.raw_decode(out, i)
        docs.append(d)
        i = j
    _annotate_files(docs)
    _ast_mem[key] = docs
    return docs


def _annotate_files(docs):
    """clang elides 'file' when it equals the previously printed one; restore"""
    state = {'file': None}

    def loc(l):
        if not isinstance(l, dict):
            return
        if 'spellingLoc' in l or 'expansionLoc' in l:
            for k in ('spellingLoc', 'expansionLoc'):
                if k in l:
                    loc(l[k])
            return
        if 'file' in l:
            state['file'] = l['file']
        if 'offset' in l:
            l['_file'] = state['file']

    def walk(n):
        if isinstance(n, dict):
            for k, v in n.items():
                if k == 'loc':
                    loc(v)
                elif k == 'range':
                    loc(v.get('begin'))
                    loc(v.get('end'))
                elif k == 'inner':
                    for c in v:
                        walk(c)
                elif isinstance(v, (dict, list)) and k not in ('type',):
                    walk(v)
        elif isinstance(n, list):
            for c in n:
                walk(c)
    for d in docs:
        walk(d)


_src = {}


def src_text(path):
    if path not in _src:
        with open(path, 'rb') as fh:
            _src[path] = fh.read().decode('latin-1')
    return _src[path]


# ---------------------------------------------------------------- types
def strip_ns(t):
    for ns in NAMESPACES:
        t = re.sub(r'\b%s::' % ns, '', t)
    return t


def cname(t):
    """identifier-safe mangling of a type spelling"""
    t = _ctype(t)
    t = t.replace('struct ', '').replace('const ', '').replace('*', ' p').replace('&', ' r')
    t = re.sub(r'[^A-Za-z0-9_]+', '_', t.strip())
    return t.strip('_')


ELEM_ALIAS = {'unsigned long': 'size_t', 'unsigned int': 'uint', 'unsigned char': 'uchar', 'unsigned short': 'ushort',
              'std::size_t': 'size_t'}


def canon_elem(t):
    t = ' '.join(t.split())
    return ELEM_ALIAS.get(t, t)


TYPE_NAMES = set()
BUILTIN_TYPE_WORDS = set('void char short int long unsigned signed float double const volatile struct bool _Bool size_t ssize_t uint uchar ushort ulong '
                         'uint8_t uint16_t uint32_t uint64_t int8_t int16_t int32_t int64_t ptrdiff_t restrict'.split())


def ctype(t):
    """C spelling of a C++ type spelling (subset)"""
    r = _ctype(t)
    for w in re.findall(r'[A-Za-z_]\w*', r):
        if w not in BUILTIN_TYPE_WORDS:
            TYPE_NAMES.add(w)
    return r


def _ctype(t):
    t = t.strip()
    t = re.sub(r'\bclass\s+', '', t)
    t = strip_ns(t)
    m = re.match(r'^(const\s+)?vector<\s*(.+?)\s*>(.*)$', t)
    if m:
        return 'struct vec_%s%s' % (cname(canon_elem(m.group(2))), m.group(3))
    m = re.match(r'^(const\s+)?(basic_)?[io]stream(<[^>]*>)?\s*&$', t)
    if m or t in ('ostream &', 'istream &', 'ifstream &', 'ofstream &'):
        return 'struct vstream *'
    if '::' in t and '<' not in t:
        t = re.sub(r'\b\w+::(?=\w)', '', t)   # nested class types: Outer::Inner -> Inner
    if '<' in t or '::' in t:
        raise LowerError('type outside the lowering subset: ' + t)
    if t.endswith('&'):
        base = t[:-1].strip()
        return _ctype(base) + ' *'
    return t


def is_stream(t):
    return bool(re.search(r'\b((basic_)?[io]f?stream|basic_ios|ios_base)\b', t))


def split_params(fn_type):
    """'R (A, B) const' -> (R, [A, B])"""
    depth = 0
    start = None
    end = None
    for i, ch in enumerate(fn_type):
        if ch == '(':
            if depth == 0 and start is None:
                # skip "(*)" style; function types printed by clang are "R (params)"
                start = i
            depth += 1
        elif ch == ')':
            depth -= 1
            if depth == 0 and end is None:
                end = i
    ret = fn_type[:start].strip()
    inner = fn_type[start + 1:end]
    params = []
    depth = 0
    cur = ''
    for ch in inner:
        if ch in '(<':
            depth += 1
        elif ch in ')>':
            depth -= 1
        if ch == ',' and depth == 0:
            params.append(cur.strip())
            cur = ''
        else:
            cur += ch
    if cur.strip() and cur.strip() != 'void':
        params.append(cur.strip())
    return ret, params


def mangle_params(params):
    return '__'.join(cname(p) for p in params) if params else '0'


# ---------------------------------------------------------------- locations
def _pick(l):
    """-> (file, offset, tokLen, in_macro_body)"""
    if 'expansionLoc' in l:
        e = l['expansionLoc']
        s = l.get('spellingLoc', {})
        if e.get('isMacroArgExpansion') and s.get('_file', '').startswith(REPO):
            return s['_file'], s['offset'], s['tokLen'], False
        return e['_file'], e['offset'], e['tokLen'], True
    if 'offset' not in l:
        return None, None, None, False
    return l['_file'], l['offset'], l['tokLen'], False


def rng(n):
    r = n.get('range')
    if not r:
        return None
    fb, ob, tb, mb = _pick(r['begin'])
    fe, oe, te, me = _pick(r['end'])
    if ob is None or oe is None:
        return None
    return ob, oe + te, (mb or me), fb


# ---------------------------------------------------------------- edit engine
class Edits:
    def __init__(self, text):
        self.text = text
        self.edits = []  # [s, e, parts, id]
        self.outer = set()
        self.emitted = set()

    def add(self, s, e, parts):
        if isinstance(parts, str):
            parts = [parts]
        self.edits.append((s, e, parts, len(self.edits)))

    def insert(self, pos, s):
        self.add(pos, pos, [s])

    def insert_outer(self, pos, s):
        """zero-width insert that stays in front of any replacement starting at the same offset (loop contract clauses)"""
        self.add(pos, pos, [s])
        self.outer.add(self.edits[-1][3])

    def render(self, lo, hi, exclude=frozenset()):
        cand = [ed for ed in self.edits if lo <= ed[0] and ed[1] <= hi and ed[3] not in exclude and ed[3] not in self.emitted]
        # outermost first: by start, outer inserts, then widest, then creation order
        cand.sort(key=lambda ed: (ed[0], 0 if ed[3] in self.outer else 1, -(ed[1] - ed[0]), ed[3]))
        out = []
        pos = lo
        i = 0
        n = len(cand)
        # zero-width inserts at a position p come before a replace that starts at p
        # unless they were created after it and lie inside it (nested) -- those are
        # found when the replace renders its own sub-ranges.
        while i < n:
            s, e, parts, eid = cand[i]
            if s < pos or (s == pos and e == s and False):
                i += 1
                continue
            out.append(self.text[pos:s])
            if eid in self.outer:
                self.emitted.add(eid)
            out.append(self._render_parts(parts, exclude | {eid}))
            if e > s:
                # skip everything nested in [s,e)
                j = i + 1
                while j < n and cand[j][0] >= s and cand[j][1] <= e and not (cand[j][0] == e and cand[j][1] == e):
                    j += 1
                i = j
                pos = e
            else:
                i += 1
                pos = s
        out.append(self.text[pos:hi])
        return ''.join(out)

    def _render_parts(self, parts, exclude):
        out = []
        for p in parts:
            if isinstance(p, str):
                out.append(p)
            else:
                out.append(self.render(p[0], p[1], exclude))
        return ''.join(out)


# ---------------------------------------------------------------- records
class Record:
    def __init__(self, name, doc):
        self.name = name
        self.doc = doc
        self.bases = [strip_ns(b['type']['qualType']) for b in doc.get('bases', [])]
        self.fields = []      # (ctype, name, arraysuffix)
        self.statics = []     # (name, init-text, type)
        self.methods = {}     # name -> [decl]
        f = None
        for k in doc.get('inner', []):
            kind = k.get('kind')
            if kind == 'FieldDecl':
                qt = k['type']['qualType']
                m = re.match(r'^(.*?)\s*(\[[^\]]*\](?:\[[^\]]*\])*)$', qt)
                if m:
                    self.fields.append((m.group(1), k['name'], m.group(2)))
                else:
                    self.fields.append((qt, k['name'], ''))
            elif kind == 'VarDecl' and k.get('storageClass') == 'static':
                init = [c for c in k.get('inner', []) if 'range' in c]
                self.statics.append((k['name'], init[-1] if init else None, k['type']['qualType']))
            elif kind in ('CXXMethodDecl', 'CXXConstructorDecl', 'CXXDestructorDecl'):
                if k.get('isImplicit'):
                    continue
                self.methods.setdefault(k['name'], []).append(k)


class Lowerer:
    def __init__(self):
        self.records = {}       # class -> Record
        self.class_tu = {}      # class -> tu
        self.fn_docs = {}
        self.globals_needed = set()
        self.globals_soft = set()
        self.complete = None    # set of class names with a struct definition in the unit (None: assume all)
        self.calls = {}         # lowered callee name -> (ret ctype, [param ctypes])
        self.calls_by_fn = {}   # lowered function name -> set of callee names
        self.dropped = []       # (function, what)
        self.edit_log = {}      # function -> {rule: count}
        self.opaque = set()

    # -- records
    def record(self, cls, tu=None):
        if cls in self.records:
            return self.records[cls]
        tu = tu or self.class_tu.get(cls)
        if not tu:
            raise LowerError('no translation unit known for class ' + cls)
        self.class_tu[cls] = tu
        docs = clang_ast(tu, cls)
        for d in docs:
            if d.get('kind') == 'CXXRecordDecl' and d.get('name') == cls and d.get('completeDefinition'):
                self.records[cls] = Record(cls, d)
                for b in self.records[cls].bases:
                    self.class_tu.setdefault(b, tu)
                return self.records[cls]
        raise LowerError('class %s not found in %s' % (cls, tu))

    def all_fields(self, cls):
        r = self.record(cls)
        out = []
        for b in r.bases:
            out += self.all_fields(b)
        return out + r.fields

    def find_method_class(self, cls, name):
        """class (cls or a base) that declares method name"""
        r = self.record(cls)
        if name in r.methods:
            return cls
        for b in r.bases:
            try:
                c = self.find_method_class(b, name)
            except LowerError:
                c = None
            if c:
                return c
        return None

    def struct_def(self, cls):
        fields = self.all_fields(cls)
        lines = ['struct %s {' % cls]
        for t, n, arr in fields:
            lines.append('  %s %s%s;' % (ctype(t), n, arr))
        if not fields:
            lines.append('  char _empty;')
        lines.append('};')
        return '\n'.join(lines)

    def static_defs(self, cls):
        r = self.record(cls)
        out = []
        for name, init, ty in r.statics:
            if init is None:
                continue
            s, e, mac, f = rng(init)
            out.append((name, src_text(f)[s:e], ty))
        return out

    # -- function lookup
    def method_name(self, cls, name, fn_type, kind='CXXMethodDecl'):
        """lowered C name of a method"""
        r = None
        try:
            r = self.record(cls)
        except LowerError:
            pass
        if kind == 'CXXConstructorDecl':
            _, ps = split_params(fn_type)
            return '%s__ctor%s' % (cls, '0' if not ps else '__' + mangle_params(ps))
        if kind == 'CXXDestructorDecl':
            return '%s__dtor' % cls
        if r is not None and len(r.methods.get(name, [])) > 1:
            _, ps = split_params(fn_type)
            return '%s__%s__%s' % (cls, name, mangle_params(ps))
        return '%s__%s' % (cls, name)

    def find_function(self, qual, tu, sig=None):
        """-> (decl doc with body, class or None)"""
        if '::' in qual:
            cls, name = qual.rsplit('::', 1)
            cls = strip_ns(cls)
        else:
            cls, name = None, qual
        cands = []
        if cls:
            self.class_tu.setdefault(cls, tu)
            docs = clang_ast(tu, cls)
            pool = []
            for d in docs:
                if d.get('kind') == 'CXXRecordDecl' and d.get('name') == cls:
                    pool += d.get('inner', [])
                else:
                    pool.append(d)
            want = cls if name in ('ctor', cls) else ('~' + cls if name == 'dtor' else name)
            for d in pool:
                if d.get('kind') in ('CXXMethodDecl', 'CXXConstructorDecl', 'CXXDestructorDecl') and d.get('name') == want:
                    if any(k.get('kind') == 'CompoundStmt' for k in d.get('inner', [])):
                        # out-of-line definitions carry parentDeclContextId; make sure it is our class
                        cands.append(d)
        else:
            for d in clang_ast(tu, name):
                if d.get('kind') == 'FunctionDecl' and d.get('name') == name and \
                        any(k.get('kind') == 'CompoundStmt' for k in d.get('inner', [])):
                    cands.append(d)
        if sig is not None:
            cands = [d for d in cands if mangle_params(split_params(d['type']['qualType'])[1]) == sig or
                     d['type']['qualType'] == sig]
        if len(cands) != 1:
            raise LowerError('%s in %s: %d definitions match (sig=%s): %s' % (
                qual, tu, len(cands), sig, [d['type']['qualType'] for d in cands]))
        return cands[0], cls

    # -- lowering proper
    def lower(self, qual, tu, sig=None, contract=None, loops=None, cut=None, rename=None):
        """returns dict(name, proto, text, file, line, nloops, edits)"""
        d, cls = self.find_function(qual, tu, sig)
        body = [k for k in d['inner'] if k.get('kind') == 'CompoundStmt'][0]
        bs, be, mac, bfile = rng(body)
        if mac:
            raise LowerError(qual + ': body inside a macro expansion')
        text = src_text(bfile)
        ed = Edits(text)
        log = {}
        fqual = qual

        def note(rule):
            log[rule] = log.get(rule, 0) + 1

        kind = d['kind']
        fn_type = d['type']['qualType']
        ret_t, ptypes = split_params(fn_type)
        if cls:
            name = self.method_name(cls, d['name'], fn_type, kind)
        else:
            name = d['name']
            if name in OVERLOADED_FREE:
                name = name + '__' + mangle_params(ptypes)
        if rename:
            name = rename
        is_static = d.get('storageClass') == 'static'
        if cls:
            try:
                for m_ in self.record(cls).methods.get(d['name'], []):
                    if m_['type']['qualType'] == fn_type and m_.get('storageClass') == 'static':
                        is_static = True
            except LowerError:
                pass
        params = []
        pdecls = [k for k in d['inner'] if k.get('kind') == 'ParmVarDecl']
        refparams = set()
        for i, p in enumerate(pdecls):
            pt = p['type']['qualType']
            pn = p.get('name') or '_u%d' % i
            if pt.strip().endswith('&') and not is_stream(pt):
                refparams.add(p['id'])
            params.append((ctype(pt), pn))
        if cls and not is_static:
            params.insert(0, (cls + ' *', 'this'))
        if kind == 'CXXConstructorDecl':
            ret_c = cls + ' *'
            for k in d['inner']:
                if k.get('kind') == 'CXXCtorInitializer':
                    # base-class default construction with an empty body is a no-op; anything else is unsupported
                    inner = k.get('inner', [])
                    if inner and all(self._trivial_ctor_expr(x) for x in inner):
                        # default-initialisation of a base or of a member whose class has no user constructor
                        # arguments: scalar fields stay indeterminate (nondeterministic for CBMC, as in C++)
                        continue
                    raise LowerError(qual + ': member/base initialiser list is outside the lowering subset')
        elif kind == 'CXXDestructorDecl':
            ret_c = 'void'
        else:
            ret_c = ctype(ret_t)

        loops_found = []
        refvars = set(refparams)

        def base_strip(n):
            while n.get('kind') in ('ImplicitCastExpr', 'ParenExpr') and n.get('kind') == 'ImplicitCastExpr':
                n = n['inner'][0]
            return n

        def cls_of_type(qt):
            qt = strip_ns(qt.replace('const ', '').strip())
            qt = qt.rstrip('*& ').strip()
            m = re.match(r'^vector<\s*(.+?)\s*>$', qt)
            if m:
                return 'vec_' + cname(canon_elem(m.group(1)))
            if is_stream(qt):
                return 'vstream'
            if '<' in qt:
                raise LowerError('%s: receiver type outside subset: %s' % (qual, qt))
            return re.sub(r'^(class|struct)\s+', '', qt)

        def rec_call(cal, ret_t, param_ts):
            try:
                sig = (ctype(ret_t), [ctype(p_) for p_ in param_ts])
            except LowerError:
                sig = None
            self.calls.setdefault(cal, sig)
            self.calls_by_fn.setdefault(name, set()).add(cal)

        def argt(a):
            t_ = a['type'].get('desugaredQualType', a['type']['qualType'])
            if is_stream(t_) and not t_.strip().endswith('*'):
                return 'std::ostream &'      # stream lvalues are passed by reference: struct vstream * in C
            return a['type']['qualType']

        def need_nomacro(n, what):
            r = rng(n)
            if r is None or r[2]:
                if r is not None and text[r[0]:r[0] + 7] == 'assert(':
                    raise _SkipNode()   # glibc's C++ assert expands to casts; the C expansion of the same text needs no edit
                raise LowerError('%s: %s inside a macro body needs an edit' % (qual, what))
            return r

        def walk(n, parent=None):
            try:
                walk1(n, parent)
            except _SkipNode:
                for c in n.get('inner', []):
                    if isinstance(c, dict) and c:
                        walk(c, n)

        def walk1(n, parent=None):
            k = n.get('kind')
            r = rng(n)
            # ---- statements of stream type are dropped
            if k == 'CXXOperatorCallExpr':
                t = n['type'].get('desugaredQualType', n['type']['qualType'])
                if is_stream(t):
                    s, e, m, _ = need_nomacro(n, 'stream expression')
                    ed.add(s, e, '(void)0')
                    self.dropped.append((fqual, 'stream output statement: ' + ' '.join(text[s:e].split())[:80]))
                    note('drop-stream-stmt')
                    return
                # operator[] on vector
                callee = base_strip(n['inner'][0])
                opname = callee.get('referencedDecl', {}).get('name')
                recv = n['inner'][1]
                rt = recv['type'].get('desugaredQualType', recv['type']['qualType'])
                if opname == 'operator[]' and 'vector<' in rt:
                    s, e, m, _ = need_nomacro(n, 'vector index')
                    rs, re_, _, _ = rng(recv)
                    a = n['inner'][2]
                    as_, ae, _, _ = rng(a)
                    vc = cls_of_type(strip_ns(recv['type']['qualType']))
                    ed.add(s, e, ['(*%s__at(&(' % vc, (rs, re_), '), ', (as_, ae), '))'])
                    note('vector-index')
                    walk(recv, n)
                    walk(a, n)
                    return
                if opname == 'operator=' and callee.get('referencedDecl', {}).get('type', {}).get('qualType', '').count('&') >= 1:
                    # implicit (trivial) copy assignment of a plain class: a C struct assignment with the same text
                    note('struct-assign')
                    for c_ in n['inner'][1:]:
                        walk(c_, n)
                    return
                raise LowerError('%s: overloaded operator %s outside subset' % (qual, opname))
            if k == 'MemberExpr' and n.get('name') in ('beg', 'cur', 'end') and is_stream(n['inner'][0]['type'].get('desugaredQualType', n['inner'][0]['type']['qualType'])):
                s, e, m, _ = need_nomacro(n, 'stream seek direction')
                ed.add(s, e, 'VSTREAM_' + n['name'].upper())
                note('stream-seekdir')
                return
            if k == 'MemberExpr':
                b = n['inner'][0]
                if b.get('kind') == 'ImplicitCastExpr' and b.get('castKind') in ('DerivedToBase', 'UncheckedDerivedToBase') \
                        and 'bound member' not in n['type']['qualType']:
                    b['_skipcast'] = True   # base-class fields are flattened into the derived struct: d->field is valid C
                bb = base_strip(b)
                bound = 'bound member' in n['type']['qualType']
                if bb.get('kind') == 'CXXThisExpr' and bb.get('implicit') and not bound:
                    s, e, m, _ = need_nomacro(n, 'implicit this member')
                    ed.insert(s, 'this->')
                    note('implicit-this')
                    return
            if k == 'ImplicitCastExpr' and n.get('castKind') in ('DerivedToBase', 'UncheckedDerivedToBase') and not n.get('_skipcast'):
                inner0 = base_strip(n['inner'][0])
                if inner0.get('kind') != 'CXXThisExpr' and r is not None and not r[2] \
                        and n['type']['qualType'].strip().endswith('*'):
                    ed.add(r[0], r[1], ['((%s)(' % ctype(n['type']['qualType']), (r[0], r[1]), '))'])
                    note('derived-to-base')
            if k == 'CXXMemberCallExpr':
                callee = n['inner'][0]
                if callee.get('kind') != 'MemberExpr':
                    raise LowerError('%s: member call through %s' % (qual, callee.get('kind')))
                base = callee['inner'][0]
                bb = base_strip(base)
                kl = cls_of_type(base['type']['qualType'])
                mname = callee['name']
                args = n['inner'][1:]
                if kl == 'vstream' and bb.get('kind') == 'DeclRefExpr' and bb.get('referencedDecl', {}).get('name') in ('cerr', 'cout', 'clog'):
                    s, e, m, _ = need_nomacro(n, 'console stream call')
                    ed.add(s, e, '(void)0')
                    self.dropped.append((fqual, 'console stream call: ' + ' '.join(text[s:e].split())[:80]))
                    note('drop-stream-stmt')
                    return
                if mname.startswith('~') or mname.startswith('operator'):
                    raise LowerError('%s: call of %s outside subset' % (qual, mname))
                lname = '%s__%s' % (kl, mname)
                try:
                    rec = self.record(kl) if kl in self.class_tu else None
                except LowerError:
                    rec = None
                if rec is not None and len(rec.methods.get(mname, [])) > 1:
                    nargs = len([a for a in args])
                    c2 = [m_ for m_ in rec.methods[mname] if len(split_params(m_['type']['qualType'])[1]) == nargs]
                    if len(c2) != 1:
                        raise LowerError('%s: cannot resolve overload of %s::%s' % (qual, kl, mname))
                    lname = '%s__%s__%s' % (kl, mname, mangle_params(split_params(c2[0]['type']['qualType'])[1]))
                s, e, m, _ = need_nomacro(n, 'member call')
                cs, ce, _, _ = rng(callee)
                # position of '(' after callee
                po = text.index('(', ce)
                argsep = ', ' if any(a.get('kind') != 'CXXDefaultArgExpr' for a in args) else ''
                if bb.get('kind') == 'CXXThisExpr' and bb.get('implicit'):
                    ed.add(cs, po + 1, [lname + '(this' + argsep])
                else:
                    rs, re_, _, _ = rng(base)
                    arrow = callee.get('isArrow')
                    if not arrow and kl == 'vstream' and bb.get('kind') == 'DeclRefExpr':
                        arrow = True   # std::istream& / std::ostream& variables are struct vstream * in C
                    if arrow:
                        ed.add(cs, po + 1, [lname + '(', (rs, re_), argsep])
                    else:
                        ed.add(cs, po + 1, [lname + '(&(', (rs, re_), ')' + argsep])
                    walk(base, n)
                note('member-call')
                rec_call(lname, n['type']['qualType'], [kl + ' *'] + [argt(a) for a in args if a.get('kind') != 'CXXDefaultArgExpr'])
                for a in args:
                    if a.get('kind') == 'CXXDefaultArgExpr':
                        raise LowerError('%s: default argument in call of %s' % (qual, mname))
                    walk(a, n)
                return
            if k == 'CallExpr':
                ref = base_strip(n['inner'][0])
                if ref.get('kind') == 'DeclRefExpr':
                    rd = ref.get('referencedDecl', {})
                    rk = rd.get('kind')
                    rr = rng(ref)
                    if rk in ('FunctionDecl', 'CXXMethodDecl') and rr is not None and not rr[2]:
                        s, e = rr[0], rr[1]
                        t = text[s:e]
                        fty = rd.get('type', {}).get('qualType', '')
                        new = None
                        if rk == 'CXXMethodDecl':
                            if '::' in t:
                                kq, mn = strip_ns(t).rsplit('::', 1)
                            else:
                                kq, mn = self.find_method_class(cls, rd['name']) or cls, rd['name']
                            self.class_tu.setdefault(kq, tu)
                            new = self.method_name(kq, mn, fty)
                        else:
                            base_name = rd['name']
                            targs = None
                            m = re.match(r'^([\w:]+)\s*<(.*)>$', t, re.S)
                            if m:
                                targs = m.group(2)
                            new = base_name
                            _, ps = split_params(fty)
                            if targs is None and base_name in ('saveValue', 'loadValue') and len(ps) >= 2:
                                # template argument deduced from the value / array parameter
                                targs = canon_elem(ps[1].replace('const', '').replace('*', '').strip())
                            if targs is not None:
                                new = '%s__%s__%d' % (base_name, cname(canon_elem(targs)), len(ps))
                            elif base_name in OVERLOADED_FREE:
                                new = base_name + '__' + mangle_params(ps)
                        if new != t:
                            ed.add(s, e, new)
                            note('call-rename')
                        if rk == 'CXXMethodDecl' or rd.get('name') not in LIBC_NAMES:
                            _r, _ps = split_params(fty) if fty else (n['type']['qualType'], [argt(a) for a in n['inner'][1:]])
                            rec_call(new, _r, _ps)
                        # by-reference parameters of lowered callees: pass the address
                        _, ps = split_params(fty) if fty else (None, [])
                        for a, pt in zip(n['inner'][1:], ps):
                            if pt.strip().endswith('&') and not is_stream(pt) and not pt.strip().startswith('const'):
                                ar = need_nomacro(a, 'by-reference argument')
                                ed.add(ar[0], ar[1], ['&(', (ar[0], ar[1]), ')'])
                                note('ref-arg')
                        args_ = n['inner'][1:]
                        if any(a.get('kind') == 'CXXDefaultArgExpr' for a in args_):
                            if rk != 'CXXMethodDecl':
                                raise LowerError('%s: default argument in call of free function %s' % (qual, rd.get('name')))
                            extra = []
                            for i_, a in enumerate(args_):
                                if a.get('kind') == 'CXXDefaultArgExpr':
                                    extra.append(self.default_arg_text(kq, mn, fty, i_))
                                    self.globals_soft.update(re.findall(r'[A-Za-z_]\w*', extra[-1]))
                            nr = need_nomacro(n, 'call with default arguments')
                            explicit = [a for a in args_ if a.get('kind') != 'CXXDefaultArgExpr']
                            ed.insert(nr[1] - 1, (', ' if explicit else '') + ', '.join(extra))
                            note('default-arg')
                        for a in args_:
                            if a.get('kind') != 'CXXDefaultArgExpr':
                                walk(a, n)
                        return
            if k == 'CXXNewExpr':
                s, e, m, _ = need_nomacro(n, 'new')
                if n.get('isPlacement'):
                    raise LowerError(qual + ': placement new')
                if n.get('isArray'):
                    ety = n['type']['qualType'].strip()
                    assert ety.endswith('*')
                    ety = ctype(ety[:-1].strip())
                    sz = n['inner'][0]
                    zs, ze, _, _ = rng(sz)
                    init = n['inner'][1:] if len(n['inner']) > 1 else []
                    zero = any(i.get('kind') in ('InitListExpr', 'ImplicitValueInitExpr', 'CXXScalarValueInitExpr') for i in init)
                    ed.add(s, e, ['(%s*)%s(sizeof(%s), ' % (ety, 'cxx_new_array_zero' if zero else 'cxx_new_array', ety), (zs, ze), ')'])
                    note('new-array')
                    walk(sz, n)
                    return
                ce = n['inner'][0] if n.get('inner') else None
                kl = cls_of_type(n['type']['qualType'])
                if ce is not None and ce.get('kind') == 'CXXConstructExpr':
                    cname_ = self.method_name(kl, kl, ce['ctorType']['qualType'], 'CXXConstructorDecl')
                    args = ce.get('inner', [])
                    incomplete = self.complete is not None and kl not in self.complete
                    if incomplete:
                        # the class is not declared in this unit: allocation+construction as one (contract-only) function
                        cname_ = cname_.replace('__ctor', '__new', 1)
                        parts = ['%s(' % cname_]
                    else:
                        parts = ['%s((%s*)cxx_new(sizeof(%s))' % (cname_, kl, kl)]
                    first = incomplete
                    cps = split_params(ce['ctorType']['qualType'])[1]
                    for ai, a in enumerate(args):
                        if a.get('kind') == 'CXXDefaultArgExpr':
                            raise LowerError('%s: default argument in constructor of %s' % (qual, kl))
                        ar = rng(a)
                        if not first:
                            parts.append(', ')
                        first = False
                        byref = ai < len(cps) and cps[ai].strip().endswith('&') and not is_stream(cps[ai]) and a.get('valueCategory') == 'lvalue'
                        if byref:
                            parts.append('&(')
                        parts.append((ar[0], ar[1]))
                        if byref:
                            parts.append(')')
                            note('ref-arg')
                    parts.append(')')
                    ed.add(s, e, parts)
                    note('new-object')
                    rec_call(cname_, kl + ' *', ([] if incomplete else [kl + ' *']) + split_params(ce['ctorType']['qualType'])[1])
                    for a in args:
                        walk(a, n)
                    return
                if not n.get('inner'):
                    # new T  (scalar / POD without initialiser)
                    ety = ctype(n['type']['qualType'].strip()[:-1])
                    ed.add(s, e, '(%s*)cxx_new(sizeof(%s))' % (ety, ety))
                    note('new-scalar')
                    return
                raise LowerError(qual + ': new-expression form outside subset')
            if k == 'CXXDeleteExpr':
                s, e, m, _ = need_nomacro(n, 'delete')
                a = n['inner'][0]
                as_, ae, _, _ = rng(a)
                if n.get('isArray') or n.get('isArrayAsWritten'):
                    ed.add(s, e, ['cxx_delete_array(', (as_, ae), ')'])
                    note('delete-array')
                else:
                    at = a['type']['qualType']
                    kl = cls_of_type(at)
                    if kl in ('void', 'char', 'uchar', 'unsigned char', 'int', 'uint', 'unsigned int', 'size_t'):
                        ed.add(s, e, ['cxx_delete(', (as_, ae), ')'])
                    else:
                        ed.add(s, e, ['%s__delete(' % kl, (as_, ae), ')'])
                        rec_call('%s__delete' % kl, 'void', [kl + ' *'])
                    note('delete-object')
                walk(a, n)
                return
            if k == 'CXXThrowExpr':
                s, e, m, _ = need_nomacro(n, 'throw')
                ed.add(s, e, 'cxx_throw()')
                note('throw')
                return
            if k == 'CXXNullPtrLiteralExpr':
                s, e, m, _ = need_nomacro(n, 'nullptr')
                ed.add(s, e, '((void*)0)')
                note('nullptr')
                return
            if k in ('CXXStaticCastExpr', 'CXXReinterpretCastExpr', 'CXXConstCastExpr', 'CXXFunctionalCastExpr'):
                s, e, m, _ = need_nomacro(n, 'C++ cast')
                a = n['inner'][0]
                ar = rng(a)
                if k == 'CXXFunctionalCastExpr' and a.get('kind') == 'CXXConstructExpr':
                    raise LowerError(qual + ': temporary object construction')
                ed.add(s, e, ['((%s)(' % ctype(n['type']['qualType']), (ar[0], ar[1]), '))'])
                note('cxx-cast')
                walk(a, n)
                return
            if k in ('LambdaExpr', 'CXXForRangeStmt', 'CXXTryStmt', 'CXXTemporaryObjectExpr', 'MaterializeTemporaryExpr',
                     'CXXBindTemporaryExpr', 'ExprWithCleanups', 'CXXStdInitializerListExpr'):
                raise LowerError('%s: %s is outside the lowering subset' % (qual, k))
            if k == 'CXXConstructExpr' and (parent is None or parent.get('kind') != 'VarDecl'):
                raise LowerError('%s: object construction expression outside subset' % qual)
            if k == 'DeclStmt':
                vds = [c for c in n['inner'] if c.get('kind') == 'VarDecl']
                for v in vds:
                    vt = v['type']['qualType']
                    dt = v['type'].get('desugaredQualType', vt)
                    if 'auto' in vt.split():
                        raise LowerError(qual + ': auto variable')
                    if vt.strip().endswith('&'):
                        raise LowerError(qual + ': local reference variable ' + v['name'])
                    init = [c for c in v.get('inner', []) if c.get('kind') == 'CXXConstructExpr']
                    if init and len(init[0].get('inner', [])) == 1 and re.match(r'^void \((const )?%s &&?\)' % re.escape(strip_ns(vt).replace('const ', '').strip()), strip_ns(init[0]['ctorType']['qualType'])):
                        # copy-initialisation of a plain class from an lvalue: identical C text (struct copy)
                        note('struct-copy-init')
                        continue      # children are visited by the generic traversal below
                    if init:
                        if len(vds) != 1:
                            raise LowerError(qual + ': multiple class-type variables in one declaration')
                        s, e, m, _ = need_nomacro(n, 'class-type local')
                        ct = ctype(vt)
                        kl = cls_of_type(vt)
                        cn = self.method_name(kl, kl, init[0]['ctorType']['qualType'], 'CXXConstructorDecl')
                        args = [a for a in init[0].get('inner', [])]
                        parts = ['%s %s; %s(&%s' % (ct, v['name'], cn, v['name'])]
                        for a in args:
                            if a.get('kind') == 'CXXDefaultArgExpr':
                                continue
                            ar = rng(a)
                            parts.append(', ')
                            parts.append((ar[0], ar[1]))
                        parts.append(');')
                        # DeclStmt range includes the ';'
                        ed.add(s, e, parts)
                        note('class-local')
                        for a in args:
                            walk(a, init[0])
                        return
                    if 'std::' in dt and 'vector' not in dt:
                        raise LowerError('%s: local of type %s' % (qual, vt))
            if k == 'DeclRefExpr':
                rd = n.get('referencedDecl', {})
                if rd.get('id') in refvars and r is not None and not r[2]:
                    ed.add(r[0], r[1], ['(*', text[r[0]:r[1]], ')'])
                    note('ref-deref')
                elif rd.get('kind') in ('VarDecl', 'EnumConstantDecl') and r is not None:
                    t = text[r[0]:r[1]] if not r[2] else rd['name']
                    if rd.get('kind') == 'EnumConstantDecl' or self._is_global(rd, d):
                        self.globals_needed.add(rd['name'])
                        if '::' in t and not r[2]:
                            ed.add(r[0], r[1], rd['name'])
                            note('qualified-constant')
            if k in ('ForStmt', 'WhileStmt', 'DoStmt'):
                loops_found.append(n)
            for c in n.get('inner', []):
                if isinstance(c, dict) and c:
                    walk(c, n)

        self._locals = self._collect_locals(d)
        walk(body)

        # cut: keep the prefix of the body up to (not including) the first loop statement
        nloops = len(loops_found)
        body_lo, body_hi = bs, be
        cut_note = None
        if cut == 'first-loop':
            tops = body.get('inner', [])
            first = None
            for st in tops:
                if self._has_loop(st):
                    first = st
                    break
            if first is None:
                raise LowerError(qual + ': cut=first-loop but no loop statement at top level')
            fs, fe, _, _ = rng(first)
            ed.add(fs, be - 1, '')   # drop from the loop to before the closing brace
            loops_found = [l for l in loops_found if rng(l)[0] < fs]
            nloops = len(loops_found)
            cut_note = 'body cut before the first top-level loop statement (line %d)' % (text.count('\n', 0, fs) + 1)
            note('cut-first-loop')

        # loop contracts
        loops = loops or {}
        for idx in loops:
            if idx < 1 or idx > len(loops_found):
                raise LowerError('%s: spec names loop %d but the function has %d loops' % (qual, idx, len(loops_found)))
        for i, l in enumerate(loops_found, 1):
            if i not in loops:
                continue
            clause = ' ' + ' '.join(loops[i]) + ' '
            if l['kind'] == 'DoStmt':
                bodyn = [c for c in l['inner'] if isinstance(c, dict) and c][0]   # do <clauses> body while (cond);
                ed.insert_outer(rng(bodyn)[0], clause)
            else:
                bodyn = [c for c in l['inner'] if isinstance(c, dict) and c][-1]
                b0 = rng(bodyn)[0]
                ed.insert_outer(b0, clause)

        if kind == 'CXXConstructorDecl':
            ed.insert(be - 1, ' return this; ')
            for rs in self._find(body, 'ReturnStmt'):
                rr = rng(rs)
                ed.add(rr[0], rr[1], 'return this')
        btxt = ed.render(bs, be)
        line = text.count('\n', 0, bs) + 1
        proto = '%s %s(%s)' % (ret_c, name, ', '.join('%s %s' % p for p in params) or 'void')
        contract_txt = ('\n' + '\n'.join(contract)) if contract else ''
        out = '%s%s\n#line %d "%s"\n%s\n' % (proto, contract_txt, line, bfile, btxt)
        self.edit_log[fqual] = log
        return dict(name=name, proto=proto, text=out, file=bfile, line=line, nloops=nloops, edits=log,
                    cut=cut_note, qual=qual, cls=cls)

    def default_arg_text(self, kl, mname, fty, index, kind=None):
        """source text of the default value of parameter #index of method kl::mname with function type fty"""
        rec = self.record(kl)
        key = kl if kind == 'CXXConstructorDecl' else mname
        for m_ in rec.methods.get(key, []):
            if fty and m_['type']['qualType'] != fty:
                continue
            ps = [k for k in m_.get('inner', []) if k.get('kind') == 'ParmVarDecl']
            if index < len(ps):
                init = [c for c in ps[index].get('inner', []) if 'range' in c]
                if init:
                    s, e, mac, f = rng(init[-1])
                    return src_text(f)[s:e]
        raise LowerError('no default value found for parameter %d of %s::%s' % (index, kl, mname))

    def _trivial_ctor_expr(self, x):
        if x.get('kind') == 'CXXConstructExpr' and not x.get('inner'):
            return True
        # array members: ArrayInitLoopExpr / implicit value-less construction of each element
        return False

    def _has_loop(self, n):
        if n.get('kind') in ('ForStmt', 'WhileStmt', 'DoStmt'):
            return True
        return any(self._has_loop(c) for c in n.get('inner', []) if isinstance(c, dict))

    def _find(self, n, kind):
        out = []
        if n.get('kind') == kind:
            out.append(n)
        for c in n.get('inner', []):
            if isinstance(c, dict):
                out += self._find(c, kind)
        return out

    def _collect_locals(self, d):
        ids = set()

        def w(n):
            if n.get('kind') in ('VarDecl', 'ParmVarDecl') and 'id' in n:
                ids.add(n['id'])
            for c in n.get('inner', []):
                if isinstance(c, dict):
                    w(c)
        w(d)
        return ids

    def _is_global(self, rd, d):
        return rd.get('id') not in self._locals


OVERLOADED_FREE = {'Reallocate'}
LIBC_NAMES = set('strlen strcmp strncmp strcpy strncpy memcpy memcmp memset memmove malloc free calloc realloc exit abort sqrt log pow ceil floor printf fprintf sprintf snprintf assert qsort'.split())


# ---------------------------------------------------------------- macros / globals from the real headers
def repo_macros_and_globals(tu):
    """(#define lines from /repo headers reachable from tu, {name: C definition} for file-scope constants)"""
    path = tu if os.path.isabs(tu) else os.path.join(REPO, tu)

    def run():
        cmd = ['clang++', '-std=c++17', '-E', '-dD', '-Wno-everything'] + INCS + [path]
        r = subprocess.run(cmd, capture_output=True, text=True)
        if r.returncode != 0:
            raise LowerError('clang -E failed on %s: %s' % (tu, r.stderr[-2000:]))
        return r.stdout
    out = _cached('pp|' + tu, run)
    cur = None
    macros = []
    chunks = []
    for line in out.split('\n'):
        m = re.match(r'^# (\d+) "([^"]*)"', line)
        if m:
            cur = m.group(2)
            continue
        if cur and cur.startswith(REPO):
            if line.startswith('#define '):
                macros.append(line)
            elif line.startswith('#undef '):
                macros.append(line)
            else:
                chunks.append(line)
    body = '\n'.join(chunks)
    consts = {}
    # static const T NAME = init;   /   const T NAME = init;   /  const T NAME[] = {...};
    for m in re.finditer(r'(?:(?<=[;{}])|^)\s*(?:static\s+)?const\s+([A-Za-z_][\w\s:]*?)\s+(\w+)\s*(\[\s*\d*\s*\])?\s*=\s*([^;]+);', body, re.S | re.M):
        ty, name, arr, init = m.group(1), m.group(2), m.group(3), m.group(4)
        consts.setdefault(name, (strip_ns(ty.strip()), arr or '', ' '.join(init.split())))
    return macros, consts


if __name__ == '__main__':
    lw = Lowerer()
    r = lw.lower(sys.argv[2], sys.argv[1])
    print(r['text'])
    print(json.dumps(r['edits']), file=sys.stderr)

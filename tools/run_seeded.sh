#!/bin/bash
# usage: run_seeded.sh <seeded dir> <tier> <prop> [prop...]
# applies the seeded change to /repo, runs the registered checks, reverts.  Prints one line per property.
D=$(realpath $1); TIER=$2; shift 2
cd /verif
git -C /repo diff --quiet || { echo "/repo has local changes; refusing"; exit 2; }
git -C /repo apply $D/patch.diff || { echo "patch does not apply"; exit 2; }
for P in "$@"; do
  ./vcheck $P --tier $TIER > $D/run_$P.log 2>&1; rc=$?
  echo "$(basename $D) $P exit=$rc $(grep -c '^VIOLATION' $D/run_$P.log) violation line(s): $(grep '^VIOLATION' $D/run_$P.log | head -2 | sed 's/replay=[^ ]*//' | tr '\n' ' ')"
done
git -C /repo checkout -- .
# the runs above rewrote evidence/<id>.json for the broken tree: put the committed evidence back
git -C /verif checkout -- evidence 2>/dev/null
rm -f /verif/evidence/replay/C*-*.json

#!/usr/bin/env python3
"""Unit files: a C harness file with //@ directives naming the real functions
to lower, their contracts, and the obligations to discharge.

Directive grammar (one per line, clause lines are indented continuation):

  //@ unit NAME
  //@ tu PATH                          default translation unit for what follows
  //@ class NAME [tu=PATH]             generate struct NAME from the real class
  //@ opaque NAME ...                  typedef struct NAME NAME; only
  //@ global NAME ...                  file-scope constant(s) taken from the real headers
  //@ fn QUAL [tu=PATH] [sig=M] [cut=first-loop] [as=NAME] [mode=proto]
  //@   requires(...) / ensures(...) / assigns(...) / frees(...)
  //@   loop N: invariant(...) / decreases(...) / assigns(...)
  //@ ob NAME entry=H [enforce=F] [replace=A,B] [loops] [unwind=N] [unwindset=..]
  //@        tier=P|C|B props=C01,C02 kind=statement|representation [defs=-DX=1,..]
  //@        [timeout=S] [solver=cvc5|z3] [foreach=V:1-64] [quick=V:1,8] [checks=..] [nochecks=..]
  //@        [only=thorough] [reach=no] [replay=DRIVER] [objbits=N]
  //@ lowered                          marker: lowered code is emitted here
"""
import os
import re
import sys

sys.path.insert(0, os.path.dirname(os.path.abspath(__file__)))
import lower as L  # noqa: E402

HERE = os.path.dirname(os.path.dirname(os.path.abspath(__file__)))
INCLUDE = os.path.join(HERE, 'contracts', 'include')


class SpecError(Exception):
    pass


def _kv(tokens):
    d = {}
    flags = []
    for t in tokens:
        if '=' in t:
            k, v = t.split('=', 1)
            d[k] = v
        else:
            flags.append(t)
    return d, flags


def _balanced(s):
    return s.count('(') == s.count(')')


class Fn:
    def __init__(self, qual, opts):
        self.qual = qual
        self.opts = opts
        self.clauses = []
        self.loops = {}


class Ob:
    def __init__(self, name, opts, flags):
        self.name = name
        self.opts = opts
        self.flags = flags
        self.tier = opts.get('tier', 'P')
        self.props = [p for p in opts.get('props', '').split(',') if p]
        self.kind = opts.get('kind', 'statement')


class Unit:
    def __init__(self, path):
        self.path = path
        self.name = os.path.splitext(os.path.basename(path))[0]
        self.items = []      # ('class', name, tu) ('opaque', names) ('global', names) ('fn', Fn)
        self.obs = []
        self.autostub = False
        self.pre0 = []
        self.pre = []
        self.post = []
        self._parse()

    def _parse(self):
        tu = None
        lines = open(self.path).read().split('\n')
        i = 0
        where = self.pre
        cur_fn = None
        while i < len(lines):
            ln = lines[i]
            i += 1
            if not ln.startswith('//@'):
                where.append(ln)
                continue
            body = ln[3:]
            indented = body.startswith('   ')
            body = body.strip()
            if not body or body.startswith('#'):
                continue
            if indented and cur_fn is not None:
                # clause, possibly continued
                while not _balanced(body) and i < len(lines) and lines[i].startswith('//@'):
                    body += ' ' + lines[i][3:].strip()
                    i += 1
                if not _balanced(body):
                    raise SpecError('%s: unbalanced clause: %s' % (self.path, body))
                m = re.match(r'^loop\s+(\d+)\s*:\s*(\w+)\s*\((.*)\)$', body, re.S)
                if m:
                    cur_fn.loops.setdefault(int(m.group(1)), []).append(
                        '__CPROVER_%s(%s)' % ({'invariant': 'loop_invariant'}.get(m.group(2), m.group(2)), m.group(3)))
                    continue
                m = re.match(r'^(requires|ensures|assigns|frees)\s*\((.*)\)$', body, re.S)
                if not m:
                    raise SpecError('%s: bad clause: %s' % (self.path, body))
                cur_fn.clauses.append('__CPROVER_%s(%s)' % (m.group(1), m.group(2)))
                continue
            if indented and self.obs and cur_fn is None:
                d, fl = _kv(body.split())
                self.obs[-1].opts.update(d)
                self.obs[-1].flags += fl
                o = self.obs[-1]
                o.tier = o.opts.get('tier', o.tier)
                o.props = [p for p in o.opts.get('props', '').split(',') if p]
                o.kind = o.opts.get('kind', o.kind)
                continue
            toks = body.split()
            cmd, rest = toks[0], toks[1:]
            cur_fn = None
            if cmd == 'unit':
                self.name = rest[0]
            elif cmd == 'tu':
                tu = rest[0]
            elif cmd == 'class':
                d, _ = _kv(rest[1:])
                self.items.append(('class', rest[0], d.get('tu', tu)))
            elif cmd == 'opaque':
                self.items.append(('opaque', rest))
            elif cmd == 'global':
                self.items.append(('global', rest, tu))
            elif cmd == 'fn':
                d, fl = _kv(rest[1:])
                d.setdefault('tu', tu)
                cur_fn = Fn(rest[0], d)
                self.items.append(('fn', cur_fn))
            elif cmd == 'ob':
                d, fl = _kv(rest[1:])
                self.obs.append(Ob(rest[0], d, fl))
            elif cmd == 'lowered':
                where = self.post
            elif cmd == 'autostub':
                self.autostub = rest[0] if rest else 'unreachable'
            elif cmd == 'structs':
                self.pre0 = self.pre
                self.pre = []
                where = self.pre
            else:
                raise SpecError('%s: unknown directive %s' % (self.path, cmd))

    # ------------------------------------------------------------------
    def build(self):
        """-> (C text, info)"""
        lw = L.Lowerer()
        info = dict(functions=[], dropped=[], protos=[], classes=[], trusted=[])
        tus = set()
        for it in self.items:
            if it[0] == 'class':
                lw.class_tu[it[1]] = it[2]
                tus.add(it[2])
            elif it[0] == 'fn':
                tus.add(it[1].opts['tu'])
                q = it[1].qual
                if '::' in q:
                    lw.class_tu.setdefault(L.strip_ns(q.rsplit('::', 1)[0]), it[1].opts['tu'])
            elif it[0] == 'global':
                tus.add(it[2])
        tus.discard(None)
        if self.autostub:
            lw.complete = {it[1] for it in self.items if it[0] == 'class'}
        out = []
        out.append('/* generated by /verif/tools/unit.py from %s -- do not edit */' % os.path.relpath(self.path, HERE))
        out.append('#include "prelude.h"')
        # macros and constants from the real headers
        macros = []
        consts = {}
        for t in sorted(tus):
            m, c = L.repo_macros_and_globals(t)
            for x in m:
                if x not in macros:
                    macros.append(x)
            for k, v in c.items():
                consts.setdefault(k, v)
        out.append('/* ---- macros defined in /repo headers (clang -E -dD) ---- */')
        for m in macros:
            mm = re.match(r'#define\s+(\w+)', m)
            if mm:
                nm = mm.group(1)
                out.append('#ifndef %s' % nm)
                out.append(m)
                out.append('#endif')
        # type declarations
        classes = [it for it in self.items if it[0] == 'class']
        for it in self.items:
            if it[0] == 'opaque':
                for n in it[1]:
                    out.append('typedef struct %s %s;' % (n, n))
        for _, cn, ctu in classes:
            out.append('typedef struct %s %s;' % (cn, cn))
        out.append('@@AUTO_OPAQUE@@')
        out.extend(self.pre0)
        statics_emitted = {}
        for _, cn, ctu in classes:
            lw.record(cn, ctu)
            out.append(lw.struct_def(cn))
            info['classes'].append(cn)
            for name, init, ty in lw.static_defs(cn):
                if name in statics_emitted and statics_emitted[name] != init:
                    raise L.LowerError('static member %s has two different definitions' % name)
                if name not in statics_emitted:
                    statics_emitted[name] = init
                    out.append('#ifndef %s\n#define %s (%s)\n#endif' % (name, name, init))
        out.extend(self.pre)
        # lower functions
        lowered = []
        for it in self.items:
            if it[0] != 'fn':
                continue
            fn = it[1]
            o = fn.opts
            if o.get('mode') == 'proto':
                # contract-only prototype (tier A): signature must be given with sig=... in C by the unit's pre text
                raise SpecError('mode=proto: write the prototype with its contract in the unit text instead')
            r = lw.lower(fn.qual, o['tu'], sig=o.get('sig'), contract=fn.clauses, loops=fn.loops,
                         cut=o.get('cut'), rename=o.get('as'))
            r['contract'] = bool(fn.clauses)
            r['loop_contracts'] = sorted(fn.loops)
            lowered.append(r)
        # constants referenced
        needed = set(lw.globals_needed)
        for it in self.items:
            if it[0] == 'global':
                needed.update(it[1])
        needed.update(n for n in lw.globals_soft if n in consts)
        out.append('/* ---- file-scope constants from /repo headers ---- */')
        for n in sorted(needed):
            if n in statics_emitted:
                continue
            if n not in consts:
                raise L.LowerError('constant %s referenced by lowered code was not found in the preprocessed headers' % n)
            ty, arr, init = consts[n]
            if arr:
                out.append('static const %s %s%s = %s;' % (L.ctype(ty), n, arr, init))
            else:
                out.append('#ifndef %s\n#define %s ((%s)(%s))\n#endif' % (n, n, L.ctype(ty), init))
        out.append('/* ---- prototypes ---- */')
        for r in lowered:
            out.append(r['proto'] + ';')
        info['autostubs'] = []
        info['calls_by_fn'] = {k: sorted(v) for k, v in lw.calls_by_fn.items()}
        if self.autostub:
            have = {r['name'] for r in lowered}
            alltext = '\n'.join(self.pre0 + self.pre + self.post)
            out.append('/* ---- auto-generated unreachable stubs: reaching one fails its assertion, so a green slice obligation proves the call sites unreachable ---- */')
            for cal in sorted(lw.calls):
                if cal in have or re.search(r'\b%s\s*\(' % re.escape(cal), alltext):
                    continue
                if re.match(r'^(saveValue__|loadValue__|vstream__|vec_)', cal):
                    continue   # defined by the shims in contracts/include
                sig = lw.calls[cal]
                if sig is None:
                    continue
                ret, ps = sig
                plist = ', '.join('%s a%d' % (p_, i_) for i_, p_ in enumerate(ps)) or 'void'
                if cal.endswith('__delete') and len(ps) == 1:
                    # delete of an object of a class outside the unit: the destructor is not modelled, the deallocation is
                    out.append('%s %s(%s) { free(a0); }' % (ret, cal, plist))
                    info.setdefault('bodystubs', []).append(cal)
                    continue
                if self.autostub == 'streamframe':
                    # contract-only callee: may write the stream it is given (and nothing else), result arbitrary
                    sp = [i_ for i_, p_ in enumerate(ps) if 'struct vstream' in p_]
                    if sp:
                        a_ = 'a%d' % sp[0]
                        out.append('%s %s(%s) __CPROVER_requires(__CPROVER_rw_ok(%s, sizeof(struct vstream))) __CPROVER_ensures(1) __CPROVER_assigns(%s->pos, __CPROVER_object_whole(%s->buf));' % (ret, cal, plist, a_, a_, a_))
                    else:
                        out.append('%s %s(%s) __CPROVER_requires(1) __CPROVER_ensures(1) __CPROVER_assigns();' % (ret, cal, plist))
                elif self.autostub == 'havoc':
                    # the callee is outside this obligation: it returns an arbitrary value and changes nothing the caller can see
                    if '__ctor' in cal and ps:
                        body = 'return a0;'      # a constructor returns the object it was given; its fields stay arbitrary
                    elif ret.strip() == 'void':
                        body = ''
                    else:
                        body = '%s r_; return r_;' % ret
                    out.append('%s %s(%s) { %s }' % (ret, cal, plist, body))
                else:
                    out.append('%s %s(%s) { __CPROVER_assert(0, "unreachable stub %s called"); __CPROVER_assume(0); }' % (ret, cal, plist, cal))
                info['autostubs'].append(cal)
        out.append('/* ---- lowered functions (real bodies, see #line) ---- */')
        for r in lowered:
            out.append(r['text'])
            info['functions'].append(dict(qual=r['qual'], name=r['name'], file=os.path.relpath(r['file'], L.REPO),
                                          line=r['line'], loops=r['nloops'], loop_contracts=r['loop_contracts'],
                                          contract=r['contract'], edits=r['edits'], cut=r['cut']))
        info['dropped'] = ['%s: %s' % x for x in lw.dropped]
        known = {cn for _, cn, _ in classes}
        for it in self.items:
            if it[0] == 'opaque':
                known.update(it[1])
        alltext0 = '\n'.join(self.pre0 + self.pre)
        auto = []
        for tn in sorted(L.TYPE_NAMES):
            if tn in known or tn.startswith('vec_') or tn == 'vstream':
                continue
            if re.search(r'\b(struct|typedef)\b[^;]*\b%s\b' % re.escape(tn), alltext0):
                continue
            auto.append('typedef struct %s %s;' % (tn, tn))
        out[out.index('@@AUTO_OPAQUE@@')] = '\n'.join(auto)
        out.append('#line 1 "%s"' % self.path)
        # keep harness line numbers: post starts after the marker; not critical
        out.extend(self.post)
        return '\n'.join(out) + '\n', info


if __name__ == '__main__':
    u = Unit(sys.argv[1])
    txt, info = u.build()
    sys.stdout.write(txt)

# property claims for MANIFEST.json (read by mkmanifest.py)
HOOK_COMMITS = ['1012fb9']
_base_note = ('Trusted: clang AST + lowering rules (tools/lower.py), CBMC/dfcc/minisat, prelude.h (new never NULL, delete=free), '
              'tier-A contracts listed per evidence file (libc string functions, LogSequence::getField in PFC context), x86-64 LP64, '
              'signed/unsigned overflow checks off. Bounded (B) harnesses are labelled and not counted as proved.')
CLAIMS.update({
 'C01': ('Leaf codecs (VByte, packed array at every width) and PFC bucket navigation are proved by contract for all inputs; the locate/extract bijection itself is decided for PFC on every string set within the bounded grid, split at the representation (constructor == reference front-coding; queries on the reference image).', _base_note + ' Other dictionary kinds: not decided.', 'CBMC code contracts (dfcc) on lowered real code + bounded CBMC split at the representation', '5.C01'),
 'C02': ('extract(id) for id==0 or id>n returns NULL/0 for every size_t (proved slice); locateBucket range contract proved with loop contracts; absent strings give NORESULT for PFC on the bounded grid with exact-fit buffers (out-of-dictionary reads are reported).', _base_note, 'CBMC code contracts + bounded CBMC', '5.C02'),
 'C03': ('locateRank is the identity (proved); ID == rank in unsigned byte order for PFC on the bounded grid (extract(k+1) is the k-th smallest member, locate its inverse).', _base_note, 'CBMC code contracts + bounded CBMC', '5.C03'),
 'C04': ('Range/termination/frame contracts of the three boundary binary searches proved with loop contracts; contiguous ID iterator proved to enumerate exactly left..right; exactness of locatePrefix/extractPrefix for PFC decided on the bounded grid (found and fixed a real defect).', _base_note, 'CBMC code contracts with loop invariants + bounded CBMC', '5.C04'),
 'C07': ('Every obligation runs with bounds, pointer, pointer-overflow, pointer-primitive, div-by-zero and undefined-shift checks; PFC constructor growth path checked with MEMALLOC as a parameter (found and fixed a real one-byte overflow).', _base_note + ' Memory safety of code not under contract is not decided.', 'CBMC memory-safety instrumentation under contracts + bounded CBMC', '5.C07'),
 'C12': ('Constructor clamp proved for every bucketsize argument (loop-free constructor prefix); constructor with argument 0/1 equals the one built with 2, and answers are independent of bucket size, on the bounded grid.', _base_note, 'CBMC code contracts + bounded CBMC', '5.C12'),
 'C13': ('Contiguous ID iterator proved; PFC table scan and prefix string iterator decided on the bounded grid (k-th string == k-th member, NUL-terminated, length == strlen, hasNext protocol).', _base_note, 'CBMC code contracts + bounded CBMC', '5.C13'),
 'C14': ('Frames (assigns clauses) of the lowered PFC queries proved: only out-parameters are written; pattern buffer compared byte by byte before/after locate on the bounded grid; repeatability follows from the frames.', _base_note, 'CBMC code contracts (assigns frames)', '5.C14'),
 'C15': ('numElements/maxLength return the stored fields (proved); the PFC constructor sets elements == n and maxlength == longest+1 for every set on the bounded grid; constructor prefix initialises both to 0 (proved).', _base_note, 'CBMC code contracts + bounded CBMC', '5.C15'),
 'C16': ('PFC stubs (locateSubstr/extractSubstr) return NULL with an empty frame; extract of an out-of-range ID returns NULL (proved for all inputs).', _base_note, 'CBMC code contracts', '5.C16'),
 'C17': ('VByte encode/decode contracts over all 2^32 values incl. the round-trip lemma; packed array get/set round trip, neighbour preservation and frame for every width 1..64 over symbolic positions; guards of getField/setField (found and fixed the width-64 shift).', _base_note + ' DAC sequences: not yet decided.', 'CBMC code contracts, complete by operand-width unwinding', '5.C17'),
})
_nb = 'not built yet (build phase in progress)'
NA.update({
 'C05': _nb, 'C06': _nb, 'C08': _nb,
 'C09': 'quantifier is over thread schedules; CBMC contract instrumentation is sequential and the code is std::thread/std::mutex/lambdas, outside the lowering subset; a hand-written pthread re-expression would be a model (different technique family)',
 'C10': 'quantifier is over thread schedules (lost wake-ups, shutdown): not expressible as function contracts; no thread support in the contract tool chain',
 'C11': 'data races are a property of interleavings; contracts are sequential. The one contract-shaped clause (no shared mutable state on the block build path) needs the Re-Pair compressor lowered, which is outside the lowering subset',
 'C18': _nb, 'C19': _nb, 'C20': _nb,
})

#!/usr/bin/env python3
"""setup_cmd: verifies that the tools the checks need are present (nothing is built ahead of time; every check
lowers /repo's working tree and runs CBMC itself)."""
import shutil, subprocess, sys
missing = [t for t in ('clang++', 'cbmc', 'goto-cc', 'goto-instrument', 'g++') if not shutil.which(t)]
if missing:
    print('missing tools:', missing); sys.exit(1)
print(subprocess.run(['cbmc', '--version'], capture_output=True, text=True).stdout.strip())
print('ok')

#!/usr/bin/env python3
"""Writes /verif/MANIFEST.json from the table below (kept in one place so it stays valid)."""
import json, os
HERE = os.path.dirname(os.path.dirname(os.path.abspath(__file__)))
props = [json.loads(l) for l in open(os.path.join(HERE, 'properties.jsonl'))]
CLAIMS = {}   # id -> (level text, level note, technique, design_ref)
NA = {}       # id -> reason
exec(open(os.path.join(HERE, 'tools', 'claims.py')).read())
checks = []
for p in props:
    pid = p['id']
    if pid in CLAIMS:
        text, note, tech, ref = CLAIMS[pid]
        checks.append(dict(property_id=pid, quick_cmd='./vcheck %s --tier quick' % pid, thorough_cmd='./vcheck %s --tier thorough' % pid,
                           evidence_file='evidence/%s.json' % pid, replay_cmd_template='cat {path}', engine='vcheck',
                           level_claimed=dict(category='proof', text=text, design_ref=ref), level_note=note, technique=tech))
m = dict(version=1, setup_cmd='python3 tools/selfcheck.py',
         hooks=dict(guard='LIBCSD_VERIF', enable='-DLIBCSD_VERIF -DLIBCSD_VERIF_MEMALLOC=<n> when the native replay of a growth-path counterexample compiles StringDictionaryPFC.cpp; the CBMC obligations override MEMALLOC on the lowered copy (-DMEMALLOC=<n>)',
                    baseline_off_cmd='cmake -G Ninja -B /repo/_build -S /repo && cmake --build /repo/_build && ctest --test-dir /repo/_build -j8 --timeout 900',
                    source_commits=HOOK_COMMITS, add_only=True),
         engines=[dict(name='vcheck', path='/verif/vcheck', serves_properties=sorted(CLAIMS),
                       kind_free_text='contract-based deductive verification: CBMC 6.11 code contracts (goto-instrument --dfcc: enforce/replace, loop contracts) on the real function bodies, lowered from C++ to C on every run by an AST-directed extraction (tools/lower.py); bounded CBMC harnesses on the same lowered bodies as labelled stand-ins; native ASan/UBSan replay of counterexamples')],
         checks=checks, notes='DESIGN.md describes tiers P (proved with loop contracts), C (complete by unwinding to an operand-width constant), B (bounded, labelled, never counted as proved), A (assumed). known_findings.json lists repaired defects (fix: commits in /repo) and recorded findings.',
         not_applicable=[dict(property_id=p['id'], reason=NA[p['id']]) for p in props if p['id'] not in CLAIMS])
for p in props:
    assert p['id'] in CLAIMS or p['id'] in NA, p['id']
json.dump(m, open(os.path.join(HERE, 'MANIFEST.json'), 'w'), indent=1)
print('claimed', sorted(CLAIMS), 'n/a', sorted(k for k in NA if k not in CLAIMS))

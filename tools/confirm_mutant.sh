#!/bin/bash
# usage: confirm_mutant.sh <id> <dir with patch.diff and demo.cpp>
# Confirms independently, in a scratch worktree: patch applies, library builds, ctest passes with the patch,
# demo fails with the patch and passes without it.  Writes <dir>/CONFIRM.txt.  Removes the worktree afterwards.
set -u
ID=$1; SRC=$2; WT=/tmp/confirm_$ID; OUT=$SRC/CONFIRM.txt
SAN=${SAN:-}
rm -rf $WT; git -C /repo worktree prune; git -C /repo worktree add -q --detach $WT HEAD || exit 2
cd $WT
libsrcs() { ls *.cpp FMIndex/*.cpp Hash/*.cpp Huffman/*.cpp HuTucker/*.cpp RePair/*.cpp RePair/Coder/*.cpp utils/*.cpp utils/Coder/*.cpp XBW/*.cpp $(find libcds/src -name '*.cpp') | grep -v -e '^Build.cpp' -e '^Test.cpp' -e '^demo.cpp'; }
buildlib() { rm -rf $WT/_objs; mkdir -p $WT/_objs; libsrcs | xargs -P 16 -I{} sh -c 'g++ -std=c++17 -O1 -w '"$SAN"' -I. -Ilibcds/includes -c {} -o _objs/$(echo {} | tr "/" "_").o' && ar rcs _objs/lib.a _objs/*.o; }
builddemo() { g++ -std=c++17 -O1 -w $SAN -I. -Ilibcds/includes $SRC/demo.cpp _objs/lib.a -lpthread -o _objs/demo; }
{
echo "== confirm $ID at /repo $(git -C /repo rev-parse --short HEAD) $(date -u +%FT%TZ) SAN='$SAN'"
buildlib && builddemo && (timeout 300 _objs/demo > _objs/demo_base.out 2>&1; echo "demo WITHOUT patch: exit $?")
git apply $SRC/patch.diff && echo "patch applied" || { echo "PATCH DOES NOT APPLY"; }
git diff --stat | tail -1
(cmake -G Ninja -B _build -S . > /dev/null 2>&1 && cmake --build _build > _objs/build.log 2>&1 && echo "cmake build ok" || echo "cmake build FAILED")
ctest --test-dir _build -j8 --timeout 900 2>&1 | grep -E "tests passed|tests failed" 
buildlib && builddemo && (timeout 300 _objs/demo > _objs/demo_mut.out 2>&1; echo "demo WITH patch: exit $?"; tail -3 _objs/demo_mut.out)
} > $OUT 2>&1
cd /; git -C /repo worktree remove --force $WT
cat $OUT

/* Stream shim (tier A): std::ostream / std::istream as a byte buffer with a position.  write/read are
 * bounds-asserting copies; saveValue<T>/loadValue<T> are libcds' templates (cppUtils.h) re-stated over the shim:
 *   saveValue<T>(out, v)        -> out.write((char*)&v, sizeof(T))
 *   saveValue<T>(out, p, n)     -> out.write((char*)p, n*sizeof(T))
 *   loadValue<T>(in)            -> T r; in.read((char*)&r, sizeof(T)); return r
 *   loadValue<T>(in, n)         -> T *r = new T[n]; in.read((char*)r, n*sizeof(T)); return r           */
#ifndef VERIF_VSTREAM_H
#define VERIF_VSTREAM_H
struct vstream { uchar *buf; size_t pos; size_t cap; };
#define VSTREAM_BEG 0
#ifdef VSTREAM_WRITE_CONTRACT
/* contract form of ostream::write for the frame obligations of save(): the source range must be readable
 * (so a save that reads past an array it owns fails here), only the stream is written */
void vstream__write(struct vstream *s, const char *p, size_t n)
#ifdef VSTREAM_WRITE_FRAMEONLY
__CPROVER_requires(__CPROVER_rw_ok(s, sizeof(struct vstream)))
#else
__CPROVER_requires(__CPROVER_rw_ok(s, sizeof(struct vstream)) && __CPROVER_rw_ok(s->buf, s->cap) && s->pos <= s->cap && n <= s->cap - s->pos)
#endif
#ifndef VSTREAM_WRITE_FRAMEONLY
__CPROVER_requires(n == 0 || __CPROVER_r_ok(p, n))
#endif
__CPROVER_ensures(s->pos == __CPROVER_old(s->pos) + n)
__CPROVER_assigns(s->pos, __CPROVER_object_whole(s->buf))
#else
static inline void vstream__write(struct vstream *s, const char *p, size_t n)
#endif
{
  __CPROVER_assert(s->pos + n <= s->cap, "stream shim: write fits the buffer provided by the harness");
  __CPROVER_assume(s->pos + n <= s->cap);
  memcpy(s->buf + s->pos, p, n);
  s->pos += n;
}
static inline void vstream__read(struct vstream *s, char *p, size_t n) {
  __CPROVER_assert(s->pos + n <= s->cap, "stream shim: read stays inside the image");
  __CPROVER_assume(s->pos + n <= s->cap);
  memcpy(p, s->buf + s->pos, n);
  s->pos += n;
}
/* array payloads: with -DVSTREAM_LOOP_COPY they are copied byte by byte.  CBMC's memcpy with a symbolic length into a
 * symbolic-size object is imprecise (it over-approximates: spurious counterexamples were observed, never spurious
 * passes); a loop is exact and is bounded by the obligation's unwind.  Units whose payload lengths are constants after
 * propagation use memcpy (fast and exact there). */
static inline void vstream__write_n(struct vstream *s, const char *p, size_t n) {
#ifdef VSTREAM_WRITE_CONTRACT
  vstream__write(s, p, n);
#else
  __CPROVER_assert(s->pos + n <= s->cap, "stream shim: write fits the buffer provided by the harness");
  __CPROVER_assume(s->pos + n <= s->cap);
#ifdef VSTREAM_LOOP_COPY
  for (size_t i = 0; i < n; i++) s->buf[s->pos + i] = (uchar)p[i];
#else
  memcpy(s->buf + s->pos, p, n);   /* exact when n is a constant after propagation (payload lengths enumerated by the driver) */
#endif
  s->pos += n;
#endif
}
static inline void vstream__read_n(struct vstream *s, char *p, size_t n) {
  __CPROVER_assert(s->pos + n <= s->cap, "stream shim: read stays inside the image");
  __CPROVER_assume(s->pos + n <= s->cap);
#ifdef VSTREAM_LOOP_COPY
  for (size_t i = 0; i < n; i++) p[i] = (char)s->buf[s->pos + i];
#else
  memcpy(p, s->buf + s->pos, n);
#endif
  s->pos += n;
}
static inline bool vstream__good(struct vstream *s) { (void)s; return true; }
static inline void vstream__seekg(struct vstream *s, size_t off, int whence) { (void)whence; s->pos = off; }
#ifdef VSTREAM_HAVOC_ARRAY_LOAD
/* obligations about header fields only: an array payload is an arbitrary pointer, the stream position moves on */
#define LOADARRAY(T, N) static inline T *loadValue__##N##__2(struct vstream *in, const size_t len) { T *r_; return r_; }
#elif defined(VSTREAM_NO_ARRAY_LOAD)
/* slice obligations that must return before any payload is read: array loads assert(0) */
#define LOADARRAY(T, N) static inline T *loadValue__##N##__2(struct vstream *in, const size_t len) { __CPROVER_assert(0, "payload read reached in a slice that must return before it"); __CPROVER_assume(0); return 0; }
#else
#define LOADARRAY(T, N) static inline T *loadValue__##N##__2(struct vstream *in, const size_t len) { T *r = (T *)cxx_new_array(sizeof(T), len); vstream__read_n(in, (char *)r, len * sizeof(T)); return r; }
#endif
#ifdef VSTREAM_HAVOC_ARRAY_LOAD
/* header-only obligations: array payloads are neither written nor read (save and load skip them consistently) */
#define SAVEARRAY(T, N) static inline void saveValue__##N##__3(struct vstream *out, const T *val, const size_t len) { (void)out; (void)val; (void)len; }
#else
#define SAVEARRAY(T, N) static inline void saveValue__##N##__3(struct vstream *out, const T *val, const size_t len) { vstream__write_n(out, (const char *)val, len * sizeof(T)); }
#endif
#define DEFINE_STREAM_OPS(T, N) \
  static inline void saveValue__##N##__2(struct vstream *out, const T val) { T v = val; vstream__write(out, (const char *)&v, sizeof(T)); } \
  SAVEARRAY(T, N) \
  static inline T loadValue__##N##__1(struct vstream *in) { T r; vstream__read(in, (char *)&r, sizeof(T)); return r; } \
  LOADARRAY(T, N)
DEFINE_STREAM_OPS(uint32_t, uint32_t)
DEFINE_STREAM_OPS(uint64_t, uint64_t)
DEFINE_STREAM_OPS(uchar, uchar)
DEFINE_STREAM_OPS(size_t, size_t)
DEFINE_STREAM_OPS(uint, uint)
DEFINE_STREAM_OPS(int, int)
DEFINE_STREAM_OPS(char, char)
DEFINE_STREAM_OPS(bool, bool)
DEFINE_STREAM_OPS(ushort, ushort)
#endif

/* Reference representation of Plain Front-Coding (DESIGN 3.3 "representation function").
 * This is a *specification of the format*, validated on every run against the real constructor
 * (obligation pfc_ctor); no conclusion is drawn from it alone.
 *
 * Abstract view: S[0..NS) distinct NUL-terminated strings, sorted in unsigned byte order, 1 <= len <= ML,
 * bytes 1..255.  repr(S, BS): buckets of BS strings; the first string of a bucket verbatim + NUL, every other
 * string as VByte(lcp with predecessor) + remaining suffix + NUL; off[b] (1-based, b=1..nb) the byte offset of
 * bucket b, off[0]=0, off[nb+1]=total length. */
/* bounds: NS strings, maximum length ML (at least one string has exactly that length), bucket size BS */
#ifndef NS
#define NS 3
#endif
#ifndef ML
#define ML 2
#endif
#ifndef BS
#define BS 2
#endif
#define NB ((NS + BS - 1) / BS)
#define TEXTCAP (NS * (ML + 2) + 2)
struct pfc_in { uchar strs[NS][ML + 1]; uint len[NS]; };
struct pfc_repr { uchar text[TEXTCAP]; size_t p; size_t off[NB + 2]; uint nb; };

static int sd_cmp(const uchar *a, const uchar *b) { /* unsigned byte order on NUL-terminated strings */
  for (int i = 0; i <= ML + 1; i++) { if (a[i] != b[i]) return a[i] < b[i] ? -1 : 1; if (!a[i]) return 0; }
  return 0;
}
static int sd_is_prefix(const uchar *p, uint plen, const uchar *s, uint slen) {
  if (plen > slen) return 0;
  for (uint i = 0; i < plen; i++) if (p[i] != s[i]) return 0;
  return 1;
}
/* arbitrary valid input set */
static void sd_symbolic_set(struct pfc_in *in) {
  for (int i = 0; i < NS; i++) {
    uint l; __CPROVER_assume(l >= 1 && l <= ML); in->len[i] = l;
    for (int k = 0; k <= ML; k++) { uchar c; if (k < l) { __CPROVER_assume(c != 0); in->strs[i][k] = c; } else in->strs[i][k] = 0; }
  }
  for (int i = 1; i < NS; i++) __CPROVER_assume(sd_cmp(in->strs[i - 1], in->strs[i]) < 0);
  /* the longest string has length exactly ML: keeps maxlength (an allocation size) concrete; shorter maxima are
   * covered by the grid points with a smaller ML */
  uint ml = 0; for (int i = 0; i < NS; i++) if (in->len[i] > ml) ml = in->len[i];
  __CPROVER_assume(ml == ML);
}
static void repr_pfc(const struct pfc_in *in, struct pfc_repr *r) {
  size_t p = 0; uint nb = 0; r->off[0] = 0;
  for (int i = 0; i < NS; i++) {
    if (i % BS == 0) {
      r->off[++nb] = p;
      for (uint k = 0; k < in->len[i]; k++) r->text[p++] = in->strs[i][k];
      r->text[p++] = 0;
    } else {
      uint l = 0;
      while (l < in->len[i - 1] && l < in->len[i] && in->strs[i - 1][l] == in->strs[i][l]) l++;
      r->text[p++] = (uchar)(l | 0x80);   /* ML < 128: one VByte byte */
      for (uint k = l; k < in->len[i]; k++) r->text[p++] = in->strs[i][k];
      r->text[p++] = 0;
    }
  }
  r->off[nb + 1] = p; r->p = p; r->nb = nb;
}

/* std::vector<T> shim (tier A): the subset of operations the lowered code uses.
 * operator[] asserts the index (std::vector::operator[] has no bounds check; an out-of-range
 * index is undefined behaviour in the real code and a failed obligation here). */
#ifndef VERIF_VEC_H
#define VERIF_VEC_H
#ifdef VEC_NO_INDEX_ASSERT
#define VEC_INDEX_ASSERT(c) ((void)0)
#else
#define VEC_INDEX_ASSERT(c) __CPROVER_assert(c, "vector index in range")
#endif
#define DEFINE_VEC(T, NAME) \
  struct NAME { T *d; size_t n; size_t c; }; \
  static inline struct NAME *NAME##__ctor0(struct NAME *v) { v->d = 0; v->n = 0; v->c = 0; return v; } \
  static inline void NAME##__push_back(struct NAME *v, T x) { \
    if (v->n == v->c) { size_t nc = v->c ? 2 * v->c : 4; T *nd = (T *)cxx_new_array(sizeof(T), nc); \
      for (size_t i = 0; i < v->n; i++) nd[i] = v->d[i]; free(v->d); v->d = nd; v->c = nc; } \
    v->d[v->n++] = x; } \
  static inline size_t NAME##__size(struct NAME *v) { return v->n; } \
  static inline T *NAME##__at(struct NAME *v, size_t i) { VEC_INDEX_ASSERT(i < v->n); return &v->d[i]; } \
  static inline void NAME##__clear(struct NAME *v) { v->n = 0; } \
  static inline void NAME##__dtor(struct NAME *v) { free(v->d); }
#endif

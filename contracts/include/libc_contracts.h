/* Tier-A contracts for the libc string functions the lowered code calls (DESIGN 4.0).  They are used only where an
 * obligation names them in replace=...; bounded (B) harnesses use CBMC's built-in models instead.
 * "Object-terminated string": p points into an object whose last byte is NUL, so a scan from p stops inside it.
 * The comparison functions promise a sign only -- no ordering semantics. */
#ifndef VERIF_LIBC_CONTRACTS_H
#define VERIF_LIBC_CONTRACTS_H
#define CSTR_OBJ(p) (__CPROVER_r_ok((p), 1) && ((const char *)(p))[OBJSZ(p) - OFFS(p) - 1] == 0)
int strcmp(const char *s1, const char *s2)
__CPROVER_requires(CSTR_OBJ(s1) && CSTR_OBJ(s2))
__CPROVER_ensures(1)
__CPROVER_assigns();
int strncmp(const char *s1, const char *s2, size_t n)
__CPROVER_requires(CSTR_OBJ(s1) && CSTR_OBJ(s2))
__CPROVER_ensures(1)
__CPROVER_assigns();
size_t strlen(const char *s)
__CPROVER_requires(CSTR_OBJ(s))
__CPROVER_ensures(RET < OBJSZ(s) - OFFS(s) && s[RET] == 0)
__CPROVER_assigns();
#endif

/* prelude for lowered libCSD code (DESIGN.md 3.1): C spellings of the C++
 * runtime constructs the lowering rewrites.  Everything here is trusted base
 * (tier A) and is listed as such in every evidence file. */
#ifndef VERIF_PRELUDE_H
#define VERIF_PRELUDE_H
#include <stddef.h>
#include <stdint.h>
#include <stdbool.h>
#include <string.h>
#include <stdlib.h>
#include <assert.h>
typedef unsigned int uint;
typedef unsigned char uchar;
typedef unsigned short ushort;
typedef unsigned long ulong;

/* operator new never returns NULL (it throws) */
static inline void *cxx_new(size_t n) { void *p = malloc(n); __CPROVER_assume(p != 0); return p; }
#ifdef NEW_ARRAY_CAP
/* bounded harnesses whose allocation sizes are computed from symbolic data: every new[] gets NEW_ARRAY_CAP elements
 * (asserted to be enough).  Keeps object sizes concrete; overflows inside the slack are NOT detected by such an
 * obligation (it is labelled so), functional results are. */
static inline void *cxx_new_array(size_t esz, size_t n) { __CPROVER_assert(n <= NEW_ARRAY_CAP, "new[] request within the harness cap"); void *p = malloc(esz * NEW_ARRAY_CAP); __CPROVER_assume(p != 0); return p; }
#else
static inline void *cxx_new_array(size_t esz, size_t n) { void *p = malloc(esz * n); __CPROVER_assume(p != 0); return p; }
#endif
static inline void *cxx_new_array_zero(size_t esz, size_t n) { void *p = calloc(n, esz); __CPROVER_assume(p != 0); return p; }
static inline void cxx_delete_array(void *p) { free(p); }
static inline void cxx_delete(void *p) { free(p); }
/* throw: reaching it is an error of the obligation that reaches it */
static inline void cxx_throw(void) { __CPROVER_assert(0, "throw reached"); __CPROVER_assume(0); }

#ifdef REACH
#define REACH_POINT() __CPROVER_assert(0, "reach")
#else
#define REACH_POINT() ((void)0)
#endif
#define RET __CPROVER_return_value
#define OLD(x) __CPROVER_old(x)
#define OBJSZ(p) __CPROVER_OBJECT_SIZE(p)
#define OFFS(p) __CPROVER_POINTER_OFFSET(p)
#endif
